import Fdo.Cbor.Any
/-
Schema-directed (typed) CBOR: what `cbor.Decoder.Decode(&T)` accepts and builds, and what
`cbor.Marshal` writes, for the Go target shapes this library uses on the wire and in storage.
`Schema` describes a Go type as the codec sees it (kinds, struct field order after
`fieldOrder`, omitempty, the flat2 COSE header, convention types); `decodeS`/`encodeS`
mirror decodeVal/Encode and the (Stream)Unmarshaler implementations byte for byte,
including which constructs open a fresh `Decoder` (and therefore a fresh nesting budget).
-/
namespace Fdo.Cbor
open Fdo

mutual
inductive Schema where
  | uint (max : Nat)              -- uint8/16/32/64 and named types over them
  | int (bits : Nat)              -- int8..int64, int
  | bool
  | bytes                         -- []byte
  | text                          -- string
  | fixed (n : Nat)               -- [n]byte
  | slice (s : Schema)            -- []T, T not a byte
  | struct (fs : Fields)          -- array-encoded struct
  | ptr (s : Schema)              -- *T (null ↔ nil)
  | any                           -- interface{}
  | mapOf (k v : Schema)          -- map[K]V
  | tagAny (s : Schema)           -- cbor.Tag[T]
  | tagNum (n : Nat) (s : Schema) -- Unmarshaler that decodes cbor.Tag[T] and insists on number n (Sign1Tag, Mac0Tag, Encrypt0Tag)
  | bstr (s : Schema)             -- cbor.Bstr[T]
  | wrap (s : Schema)             -- cbor.ByteWrap[T], T ≠ []byte
  | wrapBytes                     -- cbor.ByteWrap[[]byte]
  | raw                           -- cbor.RawBytes
  | viaRaw (s : Schema)           -- cbor.Unmarshaler whose UnmarshalCBOR is cbor.Unmarshal(data, &T')
  | label                         -- cose.IntOrStr
  | cert                          -- cbor.X509Certificate (DER validity is an oracle: see `certs`)
  | timestamp                     -- cbor.Timestamp
  | chunk                         -- serviceinfo.DevmodModulesChunk
  | coseKey                       -- cose.Key
  deriving Repr
/-- Struct fields in encoding order. `hdr` is the embedded `cose.Header` with `flat2`
(two array slots: protected, unprotected). -/
inductive Fields where
  | nil
  | cons (s : Schema) (omitempty : Bool) (fs : Fields)
  | hdr (fs : Fields)
  deriving Repr
end

mutual
inductive Val where
  | nat (n : Nat)
  | int (i : Int)
  | bool (b : Bool)
  | bytes (b : Bytes)
  | text (b : Bytes)
  | list (vs : List Val)
  | strct (vs : List Val)                       -- struct fields in encoding order (header = one `hdr` value)
  | nilp                                        -- nil pointer
  | ref (v : Val)                               -- non-nil pointer
  | any (a : AnyVal)
  | map (ps : List (Val × Val))                 -- Go map: distinct keys, insertion order of first occurrence
  | tag (n : Nat) (v : Val)
  | raw (b : Bytes)
  | hdr (prot unprot : List (Val × AnyVal))     -- label ↦ value
  | cert (der : Bytes)
  | time (isZero : Bool) (unix : Int)
  deriving Repr
end

def Fields.slots : Fields → Nat
  | .nil => 0
  | .cons _ _ fs => fs.slots + 1
  | .hdr fs => fs.slots + 2

def Fields.omittables : Fields → Nat
  | .nil => 0
  | .cons _ o fs => fs.omittables + (if o then 1 else 0)
  | .hdr fs => fs.omittables

/-! ### encoding of `any` values -/

def sortByKey (ps : List (Bytes × Bytes)) : List (Bytes × Bytes) :=
  ps.mergeSort (fun a b => !bytesLt b.1 a.1)

mutual
def encodeAny : AnyVal → Bytes
  | .int i => if i ≥ 0 then encHead 0 i.toNat else encHead 1 (-1 - i).toNat
  | .bytes b => encHead 2 b.length ++ b
  | .text b => encHead 3 b.length ++ b
  | .arr xs => encHead 4 xs.length ++ encodeAnyList xs
  | .map ps => encHead 5 ps.length ++ ((sortByKey (encodeAnyPairs ps)).map fun p => p.1 ++ p.2).flatten
  | .tagRaw t raw => encHead 6 t ++ raw
  | .bool true => [0xf5]
  | .bool false => [0xf4]
  | .null => [0xf6]
def encodeAnyList : List AnyVal → Bytes
  | [] => []
  | x :: xs => encodeAny x ++ encodeAnyList xs
def encodeAnyPairs : List (AnyVal × AnyVal) → List (Bytes × Bytes)
  | [] => []
  | (k, v) :: ps => (encodeAny k, encodeAny v) :: encodeAnyPairs ps
end

/-- Oracle answers for X.509: the DER strings that `x509.ParseCertificate` accepts. -/
abbrev CertOracle := Bytes → Bool

/-! ### decoding -/

/-- `Decoder.unwrap` for byte/text strings. When the head carries no argument bytes the code takes
the info value itself; `decHead` refuses info 28..31, so that branch only ever sees info < 24 (where the
info value is the argument). `none` = error, `some none` = null/undefined. -/
def unwrapBytes (bs : Bytes) : Option (Option (Nat × Bytes)) :=
  match decHead bs with
  | Option.none => Option.none
  | Option.some (mt, ai, arg, r) =>
    if mt = 7 ∧ (ai = 22 ∨ ai = 23) then Option.some Option.none
    else if mt = 2 ∨ mt = 3 then Option.some (Option.some (if ai ≥ 28 then ai else arg, r))
    else Option.none

def isNullHead (bs : Bytes) : Option Bytes :=
  match decHead bs with
  | Option.some (mt, ai, _, r) => if mt = 7 ∧ (ai = 22 ∨ ai = 23) then Option.some r else Option.none
  | Option.none => Option.none

def labelOfAny : AnyVal → Option Val
  | .int i => Option.some (.int i)
  | .text b => Option.some (.text b)
  | _ => Option.none

/-- Go `==` on two decoded labels / map keys. -/
def Val.keyEq : Val → Val → Bool
  | .nat a, .nat b => a == b
  | .int a, .int b => a == b
  | .text a, .text b => a == b
  | .bytes a, .bytes b => a == b
  | .bool a, .bool b => a == b
  | _, _ => false

def vmapSet {β} (ps : List (Val × β)) (k : Val) (v : β) : List (Val × β) :=
  if ps.any (fun p => p.1.keyEq k) then ps.map (fun p => if p.1.keyEq k then (p.1, v) else p)
  else ps ++ [(k, v)]

/-- helpers of the devmod modules chunk (an array: start, count, then the module names as text) -/
def chunkTextEnc : Val → Bytes
  | .text t => encHead 3 t.length ++ t
  | _ => []
def chunkIsAnyText : Val → Bool
  | .any (.text _) => true
  | _ => false
def chunkFromAny : Val → Val
  | .any (.text t) => .text t
  | _ => .nilp

/-- Zero value of a type (what a target holds when the decoder leaves it untouched). -/
def zeroVal : Nat → Schema → Val
  | 0, _ => .nilp
  | f+1, s =>
    match s with
    | .uint _ => .nat 0
    | .int _ => .int 0
    | .bool => .bool false
    | .bytes => .bytes []
    | .text => .text []
    | .fixed n => .bytes (List.replicate n 0)
    | .slice _ => .list []
    | .struct fs => .strct (zeroFields f fs)
    | .ptr _ => .nilp
    | .any => .any .null
    | .mapOf _ _ => .map []
    | .tagAny s => .tag 0 (zeroVal f s)
    | .tagNum n s => .tag n (zeroVal f s)
    | .bstr s => zeroVal f s
    | .wrap s => zeroVal f s
    | .wrapBytes => .bytes []
    | .raw => .raw []
    | .viaRaw s => zeroVal f s
    | .label => .text []
    | .cert => .bytes []
    | .timestamp => .time true 0
    | .chunk => .strct [.int 0, .int 0, .list []]
    | .coseKey => .map []
where
  zeroFields : Nat → Fields → List Val
    | 0, _ => []
    | f+1, .nil => []
    | f+1, .cons s _ fs => zeroVal f s :: zeroFields f fs
    | f+1, .hdr fs => .hdr [] [] :: zeroFields f fs

mutual
/-- `Decoder.Decode(&T)` for `T` described by `s`; `d` = containers that may still be opened
in this `Decoder`. -/
def decodeS (ok : CertOracle) : Nat → Nat → Schema → Bytes → Option (Val × Bytes)
  | 0, _, _, _ => Option.none
  | f+1, d, s, bs =>
    match s with
    | .uint max =>
      match decHead bs with
      | Option.some (mt, ai, arg, r) =>
        if mt = 0 then (if arg ≤ max then Option.some (.nat arg, r) else Option.none)
        else if mt = 7 ∧ ai < 20 then (if ai ≤ max then Option.some (.nat ai, r) else Option.none)
        else Option.none
      | Option.none => Option.none
    | .int bits =>
      match decHead bs with
      | Option.some (mt, ai, arg, r) =>
        let lim := 2 ^ (bits - 1)
        if mt = 0 then (if arg < lim then Option.some (.int arg, r) else Option.none)
        else if mt = 1 then (if arg < lim then Option.some (.int (-1 - (arg : Int)), r) else Option.none)
        else if mt = 7 ∧ ai < 20 then Option.some (.int ai, r)
        else Option.none
      | Option.none => Option.none
    | .bool =>
      match decHead bs with
      | Option.some (mt, ai, _, r) =>
        if mt = 7 ∧ ai = 20 then Option.some (.bool false, r)
        else if mt = 7 ∧ ai = 21 then Option.some (.bool true, r)
        else Option.none
      | Option.none => Option.none
    | .bytes =>
      match decHead bs with
      | Option.some (mt, ai, arg, r) =>
        if mt = 2 ∨ mt = 3 then
          if arg ≥ maxLen ∨ r.length < arg then Option.none else Option.some (.bytes (r.take arg), r.drop arg)
        else if mt = 4 then
          -- a []byte is also a slice: an array of integers 0..255 decodes into it
          if arg ≥ maxLen ∨ d = 0 then Option.none else
          match decodeElems ok f (d - 1) (.uint 255) arg r with
          | Option.some (vs, r') => Option.some (.bytes (vs.map fun v => match v with | .nat n => UInt8.ofNat n | _ => 0), r')
          | Option.none => Option.none
        else if mt = 7 ∧ (ai = 22 ∨ ai = 23) then Option.some (.bytes [], r)
        else Option.none
      | Option.none => Option.none
    | .text =>
      match decHead bs with
      | Option.some (mt, _, arg, r) =>
        if mt = 2 ∨ mt = 3 then
          if arg ≥ maxLen ∨ r.length < arg then Option.none else Option.some (.text (r.take arg), r.drop arg)
        else Option.none
      | Option.none => Option.none
    | .fixed n =>
      match decHead bs with
      | Option.some (mt, _, arg, r) =>
        if mt = 2 ∨ mt = 3 then
          if arg ≥ maxLen ∨ r.length < arg ∨ arg > n then Option.none
          else Option.some (.bytes (r.take arg ++ List.replicate (n - arg) 0), r.drop arg)
        else if mt = 4 then
          if arg ≥ maxLen ∨ d = 0 ∨ arg > n then Option.none else
          match decodeElems ok f (d - 1) (.uint 255) arg r with
          | Option.some (vs, r') =>
            Option.some (.bytes ((vs.map fun v => match v with | .nat k => UInt8.ofNat k | _ => 0) ++ List.replicate (n - arg) 0), r')
          | Option.none => Option.none
        else Option.none
      | Option.none => Option.none
    | .slice e =>
      match decHead bs with
      | Option.some (mt, ai, arg, r) =>
        if mt = 4 then
          if arg ≥ maxLen ∨ d = 0 then Option.none else
          match decodeElems ok f (d - 1) e arg r with
          | Option.some (vs, r') => Option.some (.list vs, r')
          | Option.none => Option.none
        else if mt = 7 ∧ (ai = 22 ∨ ai = 23) then Option.some (.list [], r)
        else Option.none
      | Option.none => Option.none
    | .struct fs =>
      match decHead bs with
      | Option.some (mt, _, arg, r) =>
        if mt = 4 then
          if arg ≥ maxLen ∨ d = 0 then Option.none else
          -- field-count rule of decodeArrayToStruct: on mismatch exactly one omittable field is dropped
          let slots := fs.slots
          if arg = slots then
            match decodeFields ok f (d - 1) fs false r with
            | Option.some (vs, r') => Option.some (.strct vs, r')
            | Option.none => Option.none
          else if fs.omittables = 1 ∧ arg + 1 = slots then
            match decodeFields ok f (d - 1) fs true r with
            | Option.some (vs, r') => Option.some (.strct vs, r')
            | Option.none => Option.none
          else Option.none
        else if mt = 7 ∧ fs.slots = 0 then
          -- null/undefined decodes into a struct without fields
          match isNullHead bs with
          | Option.some r' => Option.some (.strct [], r')
          | Option.none => Option.none
        else Option.none
      | Option.none => Option.none
    | .ptr e =>
      match isNullHead bs with
      | Option.some r => Option.some (.nilp, r)
      | Option.none =>
        match decodeS ok f d e bs with
        | Option.some (v, r) => Option.some (.ref v, r)
        | Option.none => Option.none
    | .any =>
      match decodeAny f d bs with
      | Option.some (a, r) => Option.some (.any a, r)
      | Option.none => Option.none
    | .mapOf ks vs =>
      match decHead bs with
      | Option.some (mt, _, arg, r) =>
        if mt = 5 then
          if arg ≥ maxLen / 2 ∨ d = 0 then Option.none else
          match decodeMapPairs ok f (d - 1) ks vs arg [] r with
          | Option.some (ps, r') => Option.some (.map ps, r')
          | Option.none => Option.none
        else Option.none
      | Option.none => Option.none
    | .tagAny e =>
      -- Tag[T].UnmarshalCBORStream: Untag, then a fresh Decoder for the content
      match decHead bs with
      | Option.some (mt, ai, arg, r) =>
        if mt = 6 then
          match decodeS ok f maxDepth e r with
          | Option.some (v, r') => Option.some (.tag (if ai ≥ 28 then ai else arg) v, r')
          | Option.none => Option.none
        else Option.none
      | Option.none => Option.none
    | .tagNum n e =>
      -- Unmarshaler: decodeRaw, then cbor.Unmarshal(raw, &Tag[T]) and a check of the number
      match decode f d bs with
      | Option.some (_, r) =>
        let rawb := bs.take (bs.length - r.length)
        match decodeS ok f maxDepth (.tagAny e) rawb with
        | Option.some (.tag m v, []) => if m = n then Option.some (.tag n v, r) else Option.none
        | _ => Option.none
      | Option.none => Option.none
    | .bstr e =>
      match unwrapBytes bs with
      | Option.none => Option.none
      | Option.some Option.none =>
        match isNullHead bs with
        | Option.some r => Option.some (zeroVal (f+1) e, r)
        | Option.none => Option.none
      | Option.some (Option.some (n, r)) =>
        if r.length < n then Option.none else
        match decodeS ok f maxDepth e (r.take n) with
        | Option.some (v, []) => Option.some (v, r.drop n)
        | _ => Option.none
    | .wrap e =>
      match unwrapBytes bs with
      | Option.none => Option.none
      | Option.some Option.none =>
        match isNullHead bs with
        | Option.some r => Option.some (zeroVal (f+1) e, r)
        | Option.none => Option.none
      | Option.some (Option.some (n, r)) =>
        if r.length < n then Option.none else
        match decodeS ok f maxDepth e (r.take n) with
        | Option.some (v, []) => Option.some (v, r.drop n)
        | _ => Option.none
    | .wrapBytes =>
      match unwrapBytes bs with
      | Option.none => Option.none
      | Option.some Option.none =>
        match isNullHead bs with
        | Option.some r => Option.some (.bytes [], r)
        | Option.none => Option.none
      | Option.some (Option.some (n, r)) =>
        if r.length < n then Option.none else Option.some (.bytes (r.take n), r.drop n)
    | .raw =>
      match decode f d bs with
      | Option.some (_, r) => Option.some (.raw (bs.take (bs.length - r.length)), r)
      | Option.none => Option.none
    | .viaRaw e =>
      match decode f d bs with
      | Option.some (_, r) =>
        match decodeS ok f maxDepth e (bs.take (bs.length - r.length)) with
        | Option.some (v, []) => Option.some (v, r)
        | _ => Option.none
      | Option.none => Option.none
    | .label =>
      match decode f d bs with
      | Option.some (_, r) =>
        let rawb := bs.take (bs.length - r.length)
        match decodeAny f maxDepth rawb with
        | Option.some (a, []) =>
          match labelOfAny a with
          | Option.some l => Option.some (l, r)
          | Option.none => Option.none
        | _ => Option.none
      | Option.none => Option.none
    | .cert =>
      match unwrapBytes bs with
      | Option.none => Option.none
      | Option.some Option.none =>
        -- null leaves the zero certificate (which re-encodes as an empty byte string)
        match isNullHead bs with
        | Option.some r => Option.some (.bytes [], r)
        | Option.none => Option.none
      | Option.some (Option.some (n, r)) =>
        if r.length < n then Option.none
        else if ok (r.take n) then Option.some (.cert (r.take n), r.drop n) else Option.none
    | .timestamp =>
      match decHead bs with
      | Option.some (mt, ai, arg, r) =>
        if mt = 7 ∧ (ai = 22 ∨ ai = 23) then Option.some (.time true 0, r)
        else if mt = 6 then
          let num := if ai ≥ 28 then ai else arg
          if num = 1 then
            match decodeS ok f maxDepth (.int 64) r with
            | Option.some (.int i, r') => Option.some (.time false i, r')
            | _ => Option.none
          else Option.none  -- tag 0 (RFC 3339 text) is not modelled: the generator never sends it
        else Option.none
      | Option.none => Option.none
    | .chunk =>
      match decode f d bs with
      | Option.some (_, r) =>
        match decodeS ok f maxDepth (.slice .any) (bs.take (bs.length - r.length)) with
        | Option.some (.list (.any (.int a) :: .any (.int b) :: ms), []) =>
          if ms.all chunkIsAnyText
          then Option.some (.strct [.int a, .int b, .list (ms.map chunkFromAny)], r)
          else Option.none
        | _ => Option.none
      | Option.none => Option.none
    | .coseKey =>
      match decode f d bs with
      | Option.some (_, r) =>
        match decodeS ok f maxDepth (.mapOf .label .any) (bs.take (bs.length - r.length)) with
        | Option.some (.map ps, []) =>
          match ps.find? (fun p => p.1.keyEq (.int 1)) with
          | Option.some (_, .any (.int 0)) => Option.none
          | Option.some (_, .any (.text t)) => if t = "Reserved".toUTF8.toList then Option.none else Option.some (.map ps, r)
          | Option.some _ => Option.some (.map ps, r)
          | Option.none => Option.none
        | _ => Option.none
      | Option.none => Option.none
def decodeElems (ok : CertOracle) : Nat → Nat → Schema → Nat → Bytes → Option (List Val × Bytes)
  | _, _, _, 0, bs => Option.some ([], bs)
  | 0, _, _, _+1, _ => Option.none
  | f+1, d, e, n+1, bs =>
    match decodeS ok f d e bs with
    | Option.none => Option.none
    | Option.some (v, r) =>
      match decodeElems ok f d e n r with
      | Option.none => Option.none
      | Option.some (vs, r') => Option.some (v :: vs, r')
/-- `skip` = the one omittable field is absent from the wire. -/
def decodeFields (ok : CertOracle) : Nat → Nat → Fields → Bool → Bytes → Option (List Val × Bytes)
  | 0, _, _, _, _ => Option.none
  | _+1, _, .nil, _, bs => Option.some ([], bs)
  | f+1, d, .cons s o fs, skip, bs =>
    if o ∧ skip then
      match decodeFields ok f d fs false bs with
      | Option.some (vs, r) => Option.some (zeroVal (f+1) s :: vs, r)
      | Option.none => Option.none
    else
      match decodeS ok f d s bs with
      | Option.none => Option.none
      | Option.some (v, r) =>
        match decodeFields ok f d fs skip r with
        | Option.none => Option.none
        | Option.some (vs, r') => Option.some (v :: vs, r')
  | f+1, d, .hdr fs, skip, bs =>
    -- cose.Header with flat2: its own Decoder; protected = bstr (empty, or the encoding of a
    -- label→raw map), unprotected = label→raw map; every value must decode into `any`
    match decodeS ok f maxDepth .bytes bs with
    | Option.some (.bytes pb, r1) =>
      let prot :=
        if pb.isEmpty then Option.some []
        else match decodeHdrMap f maxDepth pb with
          | Option.some (ps, []) => Option.some ps
          | _ => Option.none
      match prot with
      | Option.none => Option.none
      | Option.some pm =>
        match decodeHdrMap f maxDepth r1 with
        | Option.none => Option.none
        | Option.some (um, r2) =>
          match decodeFields ok f d fs skip r2 with
          | Option.none => Option.none
          | Option.some (vs, r') => Option.some (.hdr pm um :: vs, r')
    | _ => Option.none
def decodeMapPairs (ok : CertOracle) : Nat → Nat → Schema → Schema → Nat → List (Val × Val) → Bytes → Option (List (Val × Val) × Bytes)
  | _, _, _, _, 0, acc, bs => Option.some (acc, bs)
  | 0, _, _, _, _+1, _, _ => Option.none
  | f+1, d, ks, vs, n+1, acc, bs =>
    match decodeS ok f d ks bs with
    | Option.none => Option.none
    | Option.some (k, r) =>
      match decodeS ok f d vs r with
      | Option.none => Option.none
      | Option.some (v, r') =>
        -- interface-typed keys must be non-null and comparable
        let okKey := match k with
          | .any a => a.comparable
          | _ => true
        if !okKey then Option.none else
        decodeMapPairs ok f d ks vs n (vmapSet acc k v) r'
/-- `map[Label]RawBytes` followed by decoding every value into `any`. -/
def decodeHdrMap : Nat → Nat → Bytes → Option (List (Val × AnyVal) × Bytes)
  | 0, _, _ => Option.none
  | f+1, d, bs =>
    match decHead bs with
    | Option.some (mt, _, arg, r) =>
      if mt = 5 then
        if arg ≥ maxLen / 2 ∨ d = 0 then Option.none else hdrPairs f (d - 1) arg [] r
      else Option.none
    | Option.none => Option.none
def hdrPairs : Nat → Nat → Nat → List (Val × AnyVal) → Bytes → Option (List (Val × AnyVal) × Bytes)
  | _, _, 0, acc, bs => Option.some (acc, bs)
  | 0, _, _+1, _, _ => Option.none
  | f+1, d, n+1, acc, bs =>
    match decode f d bs with
    | Option.none => Option.none
    | Option.some (_, r) =>
      match decodeAny f maxDepth (bs.take (bs.length - r.length)) with
      | Option.some (ka, []) =>
        match labelOfAny ka with
        | Option.none => Option.none
        | Option.some k =>
          match decode f d r with
          | Option.none => Option.none
          | Option.some (_, r') =>
            match decodeAny f maxDepth (r.take (r.length - r'.length)) with
            | Option.some (va, []) => hdrPairs f d n (vmapSet acc k va) r'
            | _ => Option.none
      | _ => Option.none
end

/-- `cbor.Unmarshal(b, &T)`. -/
def unmarshalS (ok : CertOracle) (s : Schema) (bs : Bytes) : Option Val :=
  match decodeS ok (2 * bs.length + 64) maxDepth s bs with
  | Option.some (v, []) => Option.some v
  | _ => Option.none

/-! ### encoding -/

def encLabel : Val → Bytes
  | .int i => if i = 0 then [0x60] else if i > 0 then encHead 0 i.toNat else encHead 1 (-1 - i).toNat
  | .text b => encHead 3 b.length ++ b
  | _ => []

def encHdrMap (m : List (Val × AnyVal)) : Bytes :=
  encHead 5 m.length ++ ((sortByKey (m.map fun p => (encLabel p.1, encodeAny p.2))).map fun p => p.1 ++ p.2).flatten

/-- Go's `isEmpty` for the omitempty rule. -/
def Val.isEmptyGo : Val → Bool
  | .nat n => n == 0
  | .int i => i == 0
  | .bool b => !b
  | .bytes b => b.isEmpty   -- a slice is empty when its length is 0 (fixed arrays: `isEmptyAt`)
  | .text b => b.isEmpty
  | .list vs => vs.isEmpty
  | .nilp => true
  | .map ps => ps.isEmpty
  | _ => false

/-- `isEmpty` at a field of schema `s`: a fixed-size array is empty when all its bytes are zero
(`reflect.Value.IsZero`), a byte slice only when it has no bytes. -/
def isEmptyAt (s : Schema) (v : Val) : Bool :=
  match s, v with
  | .fixed _, .bytes b => b.all (· == 0)
  | _, v => v.isEmptyGo

mutual
/-- `cbor.Marshal` of the Go value a decoded `Val` stands for. `none` = Marshal error. -/
def encodeS : Nat → Schema → Val → Option Bytes
  | 0, _, _ => Option.none
  | f+1, s, v =>
    match s, v with
    | .uint _, .nat n => Option.some (encHead 0 n)
    | .int _, .int i => Option.some (if i ≥ 0 then encHead 0 i.toNat else encHead 1 (-1 - i).toNat)
    | .bool, .bool b => Option.some [if b then 0xf5 else 0xf4]
    | .bytes, .bytes b => Option.some (encHead 2 b.length ++ b)
    | .text, .text b => Option.some (encHead 3 b.length ++ b)
    | .fixed _, .bytes b => Option.some (encHead 2 b.length ++ b)
    | .slice e, .list vs =>
      match encodeList f e vs with
      | Option.some b => Option.some (encHead 4 vs.length ++ b)
      | Option.none => Option.none
    | .struct fs, .strct vs =>
      match encodeFields f fs vs with
      | Option.some (n, b) => Option.some (encHead 4 n ++ b)
      | Option.none => Option.none
    | .ptr _, .nilp => Option.some [0xf6]
    | .ptr e, .ref x => encodeS f e x
    | .any, .any a => Option.some (encodeAny a)
    | .mapOf ks vs, .map ps =>
      match encodeMapPairs f ks vs ps with
      | Option.some es => Option.some (encHead 5 ps.length ++ ((sortByKey es).map fun p => p.1 ++ p.2).flatten)
      | Option.none => Option.none
    | .tagAny e, .tag n x =>
      match encodeS f e x with
      | Option.some b => Option.some (encHead 6 n ++ b)
      | Option.none => Option.none
    | .tagNum _ e, .tag n x =>
      match encodeS f e x with
      | Option.some b => Option.some (encHead 6 n ++ b)
      | Option.none => Option.none
    | .bstr e, x =>
      match encodeS f e x with
      | Option.some b => Option.some (encHead 2 b.length ++ b)
      | Option.none => Option.none
    | .wrap e, x =>
      match encodeS f e x with
      | Option.some b => Option.some (encHead 2 b.length ++ b)
      | Option.none => Option.none
    | .wrapBytes, .bytes b => Option.some (encHead 2 b.length ++ b)
    | .raw, .raw b => Option.some (if b.isEmpty then [0x40] else b)
    | .viaRaw e, x => encodeS f e x
    | .label, l => Option.some (encLabel l)
    | .cert, .cert der => Option.some (encHead 2 der.length ++ der)
    | .cert, .bytes b => Option.some (encHead 2 b.length ++ b)
    | .timestamp, .time z u =>
      if z then Option.some [0xf6]
      else Option.some (encHead 6 1 ++ (if u ≥ 0 then encHead 0 u.toNat else encHead 1 (-1 - u).toNat))
    | .chunk, .strct [.int a, .int b, .list ms] =>
      let enc (i : Int) := if i ≥ 0 then encHead 0 i.toNat else encHead 1 (-1 - i).toNat
      Option.some (encHead 4 (2 + ms.length) ++ enc a ++ enc b ++ (ms.map chunkTextEnc).flatten)
    | .coseKey, .map ps => encodeS f (.mapOf .label .any) (.map ps)
    | _, _ => Option.none
def encodeList : Nat → Schema → List Val → Option Bytes
  | 0, _, _ => Option.none
  | _+1, _, [] => Option.some []
  | f+1, e, v :: vs =>
    match encodeS f e v, encodeList f e vs with
    | Option.some a, Option.some b => Option.some (a ++ b)
    | _, _ => Option.none
/-- returns (number of array slots written, bytes) -/
def encodeFields : Nat → Fields → List Val → Option (Nat × Bytes)
  | 0, _, _ => Option.none
  | _+1, .nil, [] => Option.some (0, [])
  | f+1, .cons s o fs, v :: vs =>
    if o ∧ isEmptyAt s v then encodeFields f fs vs
    else
      match encodeS f s v, encodeFields f fs vs with
      | Option.some a, Option.some (n, b) => Option.some (n + 1, a ++ b)
      | _, _ => Option.none
  | f+1, .hdr fs, .hdr pm um :: vs =>
    match encodeFields f fs vs with
    | Option.some (n, b) =>
      let p := if pm.isEmpty then [0x40] else
        let m := encHdrMap pm
        encHead 2 m.length ++ m
      Option.some (n + 2, p ++ encHdrMap um ++ b)
    | Option.none => Option.none
  | _, _, _ => Option.none
def encodeMapPairs : Nat → Schema → Schema → List (Val × Val) → Option (List (Bytes × Bytes))
  | 0, _, _, _ => Option.none
  | _+1, _, _, [] => Option.some []
  | f+1, ks, vs, (k, v) :: ps =>
    match encodeS f ks k, encodeS f vs v, encodeMapPairs f ks vs ps with
    | Option.some a, Option.some b, Option.some r => Option.some ((a, b) :: r)
    | _, _, _ => Option.none
end

def marshalS (s : Schema) (v : Val) : Option Bytes := encodeS 10000 s v

/-- DER strings that a decoded value treats as certificates (to be confirmed by the X.509 oracle). -/
partial def Val.certs : Val → List Bytes
  | .cert der => [der]
  | .list vs => vs.flatMap Val.certs
  | .strct vs => vs.flatMap Val.certs
  | .ref v => v.certs
  | .tag _ v => v.certs
  | .map ps => ps.flatMap fun p => p.1.certs ++ p.2.certs
  | _ => []

end Fdo.Cbor
