import Fdo.Cbor.Proofs
/-
RFC 8949 well-formedness, stated without any decoder: `WFN n b r` says that `b` is `n` well-formed
data items, one after another, followed by `r`. It is the iterative "number of items still owed"
formulation of the RFC's Appendix C: a head of major type 0, 1, 7 pays one item; a string pays one
item and its content bytes; an array head replaces the item it pays by `arg` owed items, a map head by
`2·arg`, a tag by one. No length limit and no nesting limit: this is the grammar, not the library.

Heads with additional info 28..31 (reserved, indefinite length) are not heads (`decHead` refuses them):
the library does not support indefinite lengths. For major type 7 the argument bytes that follow info
24..27 are not looked at (a two-byte simple value below 32 is accepted here, which the RFC calls
not well-formed; the library's typed decoders refuse every such value anyway).
-/
namespace Fdo.Cbor
open Fdo

inductive WFN : Nat → Bytes → Bytes → Prop
  | zero {b : Bytes} : WFN 0 b b
  | scalar {n mt ai arg : Nat} {b r r' : Bytes} : decHead b = some (mt, ai, arg, r) → (mt = 0 ∨ mt = 1 ∨ mt = 7) →
      WFN n r r' → WFN (n + 1) b r'
  | str {n mt ai arg : Nat} {b r r' : Bytes} : decHead b = some (mt, ai, arg, r) → (mt = 2 ∨ mt = 3) → arg ≤ r.length →
      WFN n (r.drop arg) r' → WFN (n + 1) b r'
  | arr {n ai arg : Nat} {b r r' : Bytes} : decHead b = some (4, ai, arg, r) → WFN (arg + n) r r' → WFN (n + 1) b r'
  | map {n ai arg : Nat} {b r r' : Bytes} : decHead b = some (5, ai, arg, r) → WFN (2 * arg + n) r r' → WFN (n + 1) b r'
  | tag {n ai arg : Nat} {b r r' : Bytes} : decHead b = some (6, ai, arg, r) → WFN (1 + n) r r' → WFN (n + 1) b r'

/-- `b` starts with exactly one well-formed item, and `r` is what follows it -/
abbrev WF1 (b r : Bytes) : Prop := WFN 1 b r

theorem WFN.append {n m : Nat} {a b c : Bytes} (h1 : WFN n a b) (h2 : WFN m b c) : WFN (n + m) a c := by
  induction h1 generalizing m c with
  | zero => simpa using h2
  | @scalar k _ _ _ _ _ _ hd hm _ ih =>
    have := ih h2; rw [show k + 1 + m = (k + m) + 1 by omega]; exact .scalar hd hm this
  | @str k _ _ _ _ _ _ hd hm hl _ ih =>
    have := ih h2; rw [show k + 1 + m = (k + m) + 1 by omega]; exact .str hd hm hl this
  | @arr k _ arg _ _ _ hd _ ih =>
    have := ih h2; rw [show k + 1 + m = (k + m) + 1 by omega]
    exact .arr hd (by rw [← Nat.add_assoc]; exact this)
  | @map k _ arg _ _ _ hd _ ih =>
    have := ih h2; rw [show k + 1 + m = (k + m) + 1 by omega]
    exact .map hd (by rw [← Nat.add_assoc]; exact this)
  | @tag k _ arg _ _ _ hd _ ih =>
    have := ih h2; rw [show k + 1 + m = (k + m) + 1 by omega]
    exact .tag hd (by rw [← Nat.add_assoc]; exact this)

/-- **The item boundary is unique**: the same bytes cannot be read as `n` items in two ways. -/
theorem WFN.unique {n : Nat} {b r r' : Bytes} (h1 : WFN n b r) (h2 : WFN n b r') : r = r' := by
  induction h1 generalizing r' with
  | zero => cases h2; rfl
  | scalar hd hm _ ih =>
    cases h2 with
    | scalar hd2 _ t => rw [hd] at hd2; simp at hd2; obtain ⟨_, _, _, e⟩ := hd2; subst e; exact ih t
    | str hd2 hm2 _ _ => rw [hd] at hd2; simp at hd2; omega
    | arr hd2 _ => rw [hd] at hd2; simp at hd2; omega
    | map hd2 _ => rw [hd] at hd2; simp at hd2; omega
    | tag hd2 _ => rw [hd] at hd2; simp at hd2; omega
  | str hd hm hl _ ih =>
    cases h2 with
    | scalar hd2 hm2 _ => rw [hd] at hd2; simp at hd2; omega
    | str hd2 _ _ t => rw [hd] at hd2; simp at hd2; obtain ⟨_, _, e1, e2⟩ := hd2; subst e1 e2; exact ih t
    | arr hd2 _ => rw [hd] at hd2; simp at hd2; omega
    | map hd2 _ => rw [hd] at hd2; simp at hd2; omega
    | tag hd2 _ => rw [hd] at hd2; simp at hd2; omega
  | arr hd _ ih =>
    cases h2 with
    | scalar hd2 hm2 _ => rw [hd] at hd2; simp at hd2; omega
    | str hd2 hm2 _ _ => rw [hd] at hd2; simp at hd2; omega
    | arr hd2 t => rw [hd] at hd2; simp at hd2; obtain ⟨_, e1, e2⟩ := hd2; subst e1 e2; exact ih t
    | map hd2 _ => rw [hd] at hd2; simp at hd2
    | tag hd2 _ => rw [hd] at hd2; simp at hd2
  | map hd _ ih =>
    cases h2 with
    | scalar hd2 hm2 _ => rw [hd] at hd2; simp at hd2; omega
    | str hd2 hm2 _ _ => rw [hd] at hd2; simp at hd2; omega
    | arr hd2 _ => rw [hd] at hd2; simp at hd2
    | map hd2 t => rw [hd] at hd2; simp at hd2; obtain ⟨_, e1, e2⟩ := hd2; subst e1 e2; exact ih t
    | tag hd2 _ => rw [hd] at hd2; simp at hd2
  | tag hd _ ih =>
    cases h2 with
    | scalar hd2 hm2 _ => rw [hd] at hd2; simp at hd2; omega
    | str hd2 hm2 _ _ => rw [hd] at hd2; simp at hd2; omega
    | arr hd2 _ => rw [hd] at hd2; simp at hd2
    | map hd2 _ => rw [hd] at hd2; simp at hd2
    | tag hd2 t => rw [hd] at hd2; simp at hd2; obtain ⟨_, e1, e2⟩ := hd2; subst e1 e2; exact ih t

/-! ### one-item constructors -/

theorem wf_scalar {b r : Bytes} {mt ai arg : Nat} (hd : decHead b = some (mt, ai, arg, r)) (hm : mt = 0 ∨ mt = 1 ∨ mt = 7) :
    WF1 b r := .scalar hd hm .zero

theorem wf_str {b r : Bytes} {mt ai arg : Nat} (hd : decHead b = some (mt, ai, arg, r)) (hm : mt = 2 ∨ mt = 3)
    (hl : arg ≤ r.length) : WF1 b (r.drop arg) := .str hd hm hl .zero

theorem wf_arr {b r r' : Bytes} {mt ai arg : Nat} (hd : decHead b = some (mt, ai, arg, r)) (hm : mt = 4)
    (he : WFN arg r r') : WF1 b r' := by subst hm; exact .arr hd (by simpa using he)

theorem wf_map {b r r' : Bytes} {mt ai arg : Nat} (hd : decHead b = some (mt, ai, arg, r)) (hm : mt = 5)
    (he : WFN (2 * arg) r r') : WF1 b r' := by subst hm; exact .map hd (by simpa using he)

theorem wf_tag {b r r' : Bytes} {mt ai arg : Nat} (hd : decHead b = some (mt, ai, arg, r)) (hm : mt = 6)
    (he : WF1 r r') : WF1 b r' := by subst hm; exact .tag hd (by simpa using he)

theorem wfn_cons {n : Nat} {a b c : Bytes} (h1 : WF1 a b) (h2 : WFN n b c) : WFN (n + 1) a c := by
  have := h1.append h2; rwa [Nat.add_comm] at this

theorem wfn_cons2 {n : Nat} {a b c d : Bytes} (h1 : WF1 a b) (h2 : WF1 b c) (h3 : WFN (2 * n) c d) : WFN (2 * (n + 1)) a d := by
  have := h1.append (h2.append h3); rw [show 2 * (n + 1) = 1 + (1 + 2 * n) by omega]; exact this

theorem decHead_lt_mt {b r : Bytes} {mt ai arg : Nat} (hd : decHead b = some (mt, ai, arg, r)) : mt < 8 ∧ ai < 28 := by
  cases b with
  | nil => simp [decHead] at hd
  | cons x t =>
    have hx : x.toNat < 256 := UInt8.toNat_lt x
    simp only [decHead] at hd
    split at hd
    · simp at hd; omega
    · split at hd
      · simp at hd
      · split at hd
        · simp at hd
        · simp at hd; omega

/-! ### the structural decoder accepts only well-formed items -/

mutual
theorem decode_wf (f d : Nat) (b : Bytes) (v : Item) (r : Bytes) (h : decode f d b = some (v, r)) : WF1 b r := by
  match f with
  | 0 => simp [decode] at h
  | f+1 =>
    unfold decode at h
    cases hd : decHead b with
    | none => simp [hd] at h
    | some q =>
      obtain ⟨mt, ai, arg, r0⟩ := q
      have hlt := decHead_lt_mt hd
      simp only [hd] at h
      by_cases m0 : mt = 0
      · simp only [m0, if_true] at h; simp at h; rw [← h.2]; exact wf_scalar hd (by omega)
      simp only [m0, if_false] at h
      by_cases m1 : mt = 1
      · simp only [m1, if_true] at h; simp at h; rw [← h.2]; exact wf_scalar hd (by omega)
      simp only [m1, if_false] at h
      by_cases m2 : mt = 2
      · simp only [m2, if_true] at h; split at h <;> simp at h; rw [← h.2]; exact wf_str hd (by omega) (by omega)
      simp only [m2, if_false] at h
      by_cases m3 : mt = 3
      · simp only [m3, if_true] at h; split at h <;> simp at h; rw [← h.2]; exact wf_str hd (by omega) (by omega)
      simp only [m3, if_false] at h
      by_cases m4 : mt = 4
      · simp only [m4, if_true] at h
        split at h
        · simp at h
        · cases hi : decodeItems f (d - 1) arg r0 with
          | none => simp [hi] at h
          | some q => simp [hi] at h; rw [← h.2]; exact wf_arr hd m4 (decodeItems_wf f (d - 1) arg r0 q.1 q.2 hi)
      simp only [m4, if_false] at h
      by_cases m5 : mt = 5
      · simp only [m5, if_true] at h
        split at h
        · simp at h
        · cases hi : decodePairs f (d - 1) arg r0 with
          | none => simp [hi] at h
          | some q => simp [hi] at h; rw [← h.2]; exact wf_map hd m5 (decodePairs_wf f (d - 1) arg r0 q.1 q.2 hi)
      simp only [m5, if_false] at h
      by_cases m6 : mt = 6
      · simp only [m6, if_true] at h
        split at h
        · simp at h
        · cases hi : decode f (d - 1) r0 with
          | none => simp [hi] at h
          | some q => simp [hi] at h; rw [← h.2]; exact wf_tag hd m6 (decode_wf f (d - 1) r0 q.1 q.2 hi)
      simp only [m6, if_false] at h
      split at h <;> (simp at h; rw [← h.2]; exact wf_scalar hd (by omega))
theorem decodeItems_wf (f d n : Nat) (b : Bytes) (xs : Items) (r : Bytes) (h : decodeItems f d n b = some (xs, r)) : WFN n b r := by
  match f, n with
  | f, 0 => cases f <;> (simp [decodeItems] at h; rw [← h.2]; exact .zero)
  | 0, n+1 => simp [decodeItems] at h
  | f+1, n+1 =>
    unfold decodeItems at h
    cases h1 : decode f d b with
    | none => simp [h1] at h
    | some q =>
      simp only [h1] at h
      cases h2 : decodeItems f d n q.2 with
      | none => simp [h2] at h
      | some q2 =>
        simp [h2] at h; rw [← h.2]
        exact wfn_cons (decode_wf f d b q.1 q.2 h1) (decodeItems_wf f d n q.2 q2.1 q2.2 h2)
theorem decodePairs_wf (f d n : Nat) (b : Bytes) (ps : Pairs) (r : Bytes) (h : decodePairs f d n b = some (ps, r)) : WFN (2 * n) b r := by
  match f, n with
  | f, 0 => cases f <;> (simp [decodePairs] at h; rw [← h.2]; exact .zero)
  | 0, n+1 => simp [decodePairs] at h
  | f+1, n+1 =>
    unfold decodePairs at h
    cases h1 : decode f d b with
    | none => simp [h1] at h
    | some q =>
      simp only [h1] at h
      cases h2 : decode f d q.2 with
      | none => simp [h2] at h
      | some q2 =>
        simp only [h2] at h
        cases h3 : decodePairs f d n q2.2 with
        | none => simp [h3] at h
        | some q3 =>
          simp [h3] at h; rw [← h.2]
          exact wfn_cons2 (decode_wf f d b q.1 q.2 h1) (decode_wf f d q.2 q2.1 q2.2 h2) (decodePairs_wf f d n q2.2 q3.1 q3.2 h3)
end

end Fdo.Cbor
