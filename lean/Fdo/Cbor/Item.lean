import Fdo.Bytes
/-
Structural CBOR model: the data items that `cbor.Decoder.decodeRaw` recognises
and the bytes `cbor.Encoder` produces for them.  One constructor per major type;
`Items`/`Pairs` are spelled out as a mutual inductive (nested `List Item`
breaks `induction`/`DecidableEq` on this toolchain).
-/
namespace Fdo.Cbor
open Fdo

mutual
inductive Item where
  | uint (n : Nat)
  | nint (n : Nat)            -- the integer -1 - n
  | bstr (b : Bytes)
  | tstr (b : Bytes)
  | arr (xs : Items)
  | map (ps : Pairs)           -- pairs in wire order
  | tag (t : Nat) (x : Item)
  | simple (v : Nat)           -- major type 7, additional info v < 24 (20 false, 21 true, 22 null, 23 undefined)
  | m7 (ai arg : Nat)          -- major type 7, additional info 24..27 (simple-with-byte, floats): opaque
  deriving Repr
inductive Items where
  | nil
  | cons (x : Item) (xs : Items)
  deriving Repr
inductive Pairs where
  | nil
  | cons (k v : Item) (ps : Pairs)
  deriving Repr
end

def Items.length : Items → Nat
  | .nil => 0
  | .cons _ xs => xs.length + 1

def Pairs.length : Pairs → Nat
  | .nil => 0
  | .cons _ _ ps => ps.length + 1

def Items.toList : Items → List Item
  | .nil => []
  | .cons x xs => x :: xs.toList

def Items.ofList : List Item → Items
  | [] => .nil
  | x :: xs => .cons x (Items.ofList xs)

def Pairs.toList : Pairs → List (Item × Item)
  | .nil => []
  | .cons k v ps => (k, v) :: ps.toList

def Pairs.ofList : List (Item × Item) → Pairs
  | [] => .nil
  | (k, v) :: ps => .cons k v (Pairs.ofList ps)

/-- `MaxArrayDecodeLength` default; the regenerated `Fdo.Gen.Cbor.maxArrayDecodeLength`
is checked equal to this in `Props/C12.lean`. -/
def maxLen : Nat := 100000

/-- `MaxNestingDepth`: how many arrays, maps and tags may be open at once in one `Decoder`. -/
def maxDepth : Nat := 64

/-- Number of argument bytes that follow a head byte with additional info `ai`. -/
def argWidth (ai : Nat) : Nat :=
  if ai = 24 then 1 else if ai = 25 then 2 else if ai = 26 then 4 else if ai = 27 then 8 else 0

/-- Shortest-form head: `additionalInfo(majorType, u64Bytes(n))`. -/
def encHead (mt n : Nat) : Bytes :=
  if n < 24 then [UInt8.ofNat (mt * 32 + n)]
  else if n < 256 then UInt8.ofNat (mt * 32 + 24) :: natBE 1 n
  else if n < 65536 then UInt8.ofNat (mt * 32 + 25) :: natBE 2 n
  else if n < 4294967296 then UInt8.ofNat (mt * 32 + 26) :: natBE 4 n
  else UInt8.ofNat (mt * 32 + 27) :: natBE 8 n

mutual
/-- What the encoder writes for an item whose map pairs are already in the order to be written. -/
def encode : Item → Bytes
  | .uint n => encHead 0 n
  | .nint n => encHead 1 n
  | .bstr b => encHead 2 b.length ++ b
  | .tstr b => encHead 3 b.length ++ b
  | .arr xs => encHead 4 xs.length ++ encodeItems xs
  | .map ps => encHead 5 ps.length ++ encodePairs ps
  | .tag t x => encHead 6 t ++ encode x
  | .simple v => [UInt8.ofNat (7 * 32 + v)]
  | .m7 ai arg => UInt8.ofNat (7 * 32 + ai) :: natBE (argWidth ai) arg
def encodeItems : Items → Bytes
  | .nil => []
  | .cons x xs => encode x ++ encodeItems xs
def encodePairs : Pairs → Bytes
  | .nil => []
  | .cons k v ps => encode k ++ (encode v ++ encodePairs ps)
end

/-- Head decoding as `Decoder.typeInfo` does it: `(major, info, argument, rest)`.
Additional info 28..30 (reserved) and 31 (indefinite length / break) are refused. -/
def decHead : Bytes → Option (Nat × Nat × Nat × Bytes)
  | [] => none
  | b :: r =>
    let mt := b.toNat / 32
    let ai := b.toNat % 32
    if ai < 24 then some (mt, ai, ai, r)
    else if ai ≥ 28 then none
    else if r.length < argWidth ai then none
    else some (mt, ai, beNat (r.take (argWidth ai)), r.drop (argWidth ai))

mutual
/-- `Decoder.decodeRaw`: recognise one item; returns it with the unread rest.
`d` is how many more containers (arrays, maps, tags) may be opened (`MaxNestingDepth - depth`).
`fuel` bounds the recursion (it decreases per nesting level and per list cell); `2 * length + 1` is enough for any input (`decode_fuel`). -/
def decode : Nat → Nat → Bytes → Option (Item × Bytes)
  | 0, _, _ => none
  | f+1, d, bs =>
    match decHead bs with
    | none => none
    | some (mt, ai, arg, r) =>
      if mt = 0 then some (.uint arg, r)
      else if mt = 1 then some (.nint arg, r)
      else if mt = 2 then
        if arg ≥ maxLen ∨ r.length < arg then none else some (.bstr (r.take arg), r.drop arg)
      else if mt = 3 then
        if arg ≥ maxLen ∨ r.length < arg then none else some (.tstr (r.take arg), r.drop arg)
      else if mt = 4 then
        if arg ≥ maxLen ∨ d = 0 then none else
        match decodeItems f (d - 1) arg r with
        | none => none
        | some (xs, r') => some (.arr xs, r')
      else if mt = 5 then
        -- decodeLen checks the declared pair count, then the doubled count (two items per pair)
        if arg ≥ maxLen ∨ 2 * arg ≥ maxLen ∨ d = 0 then none else
        match decodePairs f (d - 1) arg r with
        | none => none
        | some (ps, r') => some (.map ps, r')
      else if mt = 6 then
        if d = 0 then none else
        match decode f (d - 1) r with
        | none => none
        | some (x, r') => some (.tag arg x, r')
      else if ai < 24 then some (.simple ai, r) else some (.m7 ai arg, r)
def decodeItems : Nat → Nat → Nat → Bytes → Option (Items × Bytes)
  | _, _, 0, bs => some (.nil, bs)
  | 0, _, _+1, _ => none
  | f+1, d, n+1, bs =>
    match decode f d bs with
    | none => none
    | some (x, r) =>
      match decodeItems f d n r with
      | none => none
      | some (xs, r') => some (.cons x xs, r')
def decodePairs : Nat → Nat → Nat → Bytes → Option (Pairs × Bytes)
  | _, _, 0, bs => some (.nil, bs)
  | 0, _, _+1, _ => none
  | f+1, d, n+1, bs =>
    match decode f d bs with
    | none => none
    | some (k, r) =>
      match decode f d r with
      | none => none
      | some (v, r') =>
        match decodePairs f d n r' with
        | none => none
        | some (ps, r'') => some (.cons k v ps, r'')
end

/-- Decode one item from a buffer with enough fuel for any input of that length. -/
def decode1 (bs : Bytes) : Option (Item × Bytes) := decode (2 * bs.length + 1) maxDepth bs

/-- `cbor.Unmarshal` into `RawBytes`: one item and nothing after it. -/
def unmarshalRaw (bs : Bytes) : Option Item :=
  match decode1 bs with
  | some (x, []) => some x
  | _ => none

/-! ### size, well-formedness -/

mutual
def Item.size : Item → Nat
  | .arr xs => xs.size + 1
  | .map ps => ps.size + 1
  | .tag _ x => x.size + 1
  | _ => 1
def Items.size : Items → Nat
  | .nil => 0
  | .cons x xs => x.size + xs.size + 1
def Pairs.size : Pairs → Nat
  | .nil => 0
  | .cons k v ps => k.size + v.size + ps.size + 1
end

mutual
/-- Nesting depth: number of containers around the innermost item. -/
def Item.depth : Item → Nat
  | .arr xs => xs.depth + 1
  | .map ps => ps.depth + 1
  | .tag _ x => x.depth + 1
  | _ => 0
def Items.depth : Items → Nat
  | .nil => 0
  | .cons x xs => max x.depth xs.depth
def Pairs.depth : Pairs → Nat
  | .nil => 0
  | .cons k v ps => max k.depth (max v.depth ps.depth)
end

mutual
/-- Items the library can both write and read back: arguments fit 64 bits, lengths are
below the decode limit, simple values are one-byte ones. -/
def Item.WF : Item → Prop
  | .uint n => n < 18446744073709551616
  | .nint n => n < 18446744073709551616
  | .bstr b => b.length < maxLen
  | .tstr b => b.length < maxLen
  | .arr xs => xs.length < maxLen ∧ xs.WF
  | .map ps => 2 * ps.length < maxLen ∧ ps.WF
  | .tag t x => t < 18446744073709551616 ∧ x.WF
  | .simple v => v < 24
  | .m7 ai arg => 24 ≤ ai ∧ ai < 28 ∧ arg < 256 ^ argWidth ai
def Items.WF : Items → Prop
  | .nil => True
  | .cons x xs => x.WF ∧ xs.WF
def Pairs.WF : Pairs → Prop
  | .nil => True
  | .cons k v ps => k.WF ∧ v.WF ∧ ps.WF
end

end Fdo.Cbor
