import Fdo.Cbor.Typed
import Fdo.Cbor.Proofs
import Fdo.Cbor.Fuel
/-
The typed decoder never looks past the item it reads: appending bytes behind the input changes nothing
but the rest that is handed back. (`decode_append` says the same of the structural decoder.)
-/
namespace Fdo.Cbor
open Fdo

theorem take_consumed (b r t : Bytes) :
    (b ++ t).take ((b ++ t).length - (r ++ t).length) = b.take (b.length - r.length) := by
  have : (b ++ t).length - (r ++ t).length = b.length - r.length := by simp; omega
  rw [this, List.take_append_of_le_length (by omega)]

theorem length_consumed (b r t : Bytes) : (b ++ t).length - (r ++ t).length = b.length - r.length := by
  simp; omega

/-- null/undefined is decided by the first byte alone -/
theorem isNullHead_first (b : Bytes) :
    isNullHead b = match b with
      | [] => none
      | x :: xs => if x.toNat = 246 ∨ x.toNat = 247 then some xs else none := by
  cases b with
  | nil => simp [isNullHead, decHead]
  | cons x xs =>
    have hx : x.toNat < 256 := UInt8.toNat_lt x
    simp only [isNullHead, decHead]
    by_cases h24 : x.toNat % 32 < 24
    · simp only [h24, if_true]
      by_cases hn : x.toNat = 246 ∨ x.toNat = 247
      · have : x.toNat / 32 = 7 ∧ (x.toNat % 32 = 22 ∨ x.toNat % 32 = 23) := by omega
        simp [hn, this]
      · have : ¬ (x.toNat / 32 = 7 ∧ (x.toNat % 32 = 22 ∨ x.toNat % 32 = 23)) := by omega
        simp [hn, this]
    · have hn : ¬ (x.toNat = 246 ∨ x.toNat = 247) := by omega
      simp only [h24, if_false, hn]
      by_cases h28 : x.toNat % 32 ≥ 28
      · simp [h28]
      · by_cases hl : xs.length < argWidth (x.toNat % 32)
        · simp [h28, hl]
        · have : ¬ (x.toNat / 32 = 7 ∧ (x.toNat % 32 = 22 ∨ x.toNat % 32 = 23)) := by omega
          simp [h28, hl, this]

theorem isNullHead_append {b r : Bytes} (t : Bytes) (h : isNullHead b = some r) : isNullHead (b ++ t) = some (r ++ t) := by
  rw [isNullHead_first] at h ⊢
  cases b with
  | nil => simp at h
  | cons x xs =>
    simp only [List.cons_append] at h ⊢
    split at h
    · rename_i hc; simp at h; subst h; simp [hc]
    · simp at h

theorem isNullHead_append_none {b : Bytes} (t : Bytes) (hb : b ≠ []) (h : isNullHead b = none) : isNullHead (b ++ t) = none := by
  rw [isNullHead_first] at h ⊢
  cases b with
  | nil => exact absurd rfl hb
  | cons x xs =>
    simp only [List.cons_append] at h ⊢
    split at h
    · simp at h
    · rename_i hc; simp [hc]

theorem unwrapBytes_append {b r : Bytes} {n : Nat} (t : Bytes) (h : unwrapBytes b = some (some (n, r))) :
    unwrapBytes (b ++ t) = some (some (n, r ++ t)) := by
  unfold unwrapBytes at h ⊢
  cases hd : decHead b with
  | none => simp [hd] at h
  | some q =>
    obtain ⟨mt, ai, arg, r0⟩ := q
    simp only [hd] at h
    rw [decHead_append b t hd]
    simp only
    split at h
    · simp at h
    · rename_i hc
      split at h
      · rename_i hm
        simp at h
        simp [hc, hm, h.1, h.2]
      · simp at h

theorem unwrapBytes_append_null {b : Bytes} (t : Bytes) (h : unwrapBytes b = some none) :
    unwrapBytes (b ++ t) = some none := by
  unfold unwrapBytes at h ⊢
  cases hd : decHead b with
  | none => simp [hd] at h
  | some q =>
    obtain ⟨mt, ai, arg, r0⟩ := q
    simp only [hd] at h
    rw [decHead_append b t hd]
    simp only
    split at h
    · rename_i hc; simp [hc]
    · split at h <;> simp at h

/-! ### `any` targets -/

mutual
theorem decodeAny_append (f d : Nat) (b t : Bytes) (v : AnyVal) (r : Bytes) (h : decodeAny f d b = some (v, r)) :
    decodeAny f d (b ++ t) = some (v, r ++ t) := by
  match f with
  | 0 => simp [decodeAny] at h
  | f+1 =>
    unfold decodeAny at h ⊢
    cases hd : decHead b with
    | none => simp [hd] at h
    | some q =>
      obtain ⟨mt, ai, arg, r0⟩ := q
      simp only [hd] at h
      rw [decHead_append b t hd]
      simp only
      by_cases m0 : mt = 0
      · simp only [m0, if_true] at h ⊢; split at h <;> simp at h; rename_i hc; simp [hc, h.1, h.2]
      simp only [m0, if_false] at h ⊢
      by_cases m1 : mt = 1
      · simp only [m1, if_true] at h ⊢; split at h <;> simp at h; rename_i hc; simp [hc, h.1, h.2]
      simp only [m1, if_false] at h ⊢
      by_cases m2 : mt = 2
      · simp only [m2, if_true] at h ⊢
        split at h
        · simp at h
        · rename_i hc
          simp at h
          have hl : arg ≤ r0.length := by omega
          have : ¬ (arg ≥ maxLen ∨ (r0 ++ t).length < arg) := by simp; omega
          rw [if_neg this, List.take_append_of_le_length hl, List.drop_append_of_le_length hl]
          simp [h.1, h.2]
      simp only [m2, if_false] at h ⊢
      by_cases m3 : mt = 3
      · simp only [m3, if_true] at h ⊢
        split at h
        · simp at h
        · rename_i hc
          simp at h
          have hl : arg ≤ r0.length := by omega
          have : ¬ (arg ≥ maxLen ∨ (r0 ++ t).length < arg) := by simp; omega
          rw [if_neg this, List.take_append_of_le_length hl, List.drop_append_of_le_length hl]
          simp [h.1, h.2]
      simp only [m3, if_false] at h ⊢
      by_cases m4 : mt = 4
      · simp only [m4, if_true] at h ⊢
        split at h
        · simp at h
        · rename_i hc
          rw [if_neg hc]
          cases hi : decodeAnys f (d - 1) arg r0 with
          | none => simp [hi] at h
          | some q =>
            simp [hi] at h
            rw [decodeAnys_append f (d - 1) arg r0 t q.1 q.2 hi]
            simp [h.1, h.2]
      simp only [m4, if_false] at h ⊢
      by_cases m5 : mt = 5
      · simp only [m5, if_true] at h ⊢
        split at h
        · simp at h
        · rename_i hc
          rw [if_neg hc]
          cases hi : decodeAnyPairs f (d - 1) arg [] r0 with
          | none => simp [hi] at h
          | some q =>
            simp [hi] at h
            rw [decodeAnyPairs_append f (d - 1) arg [] r0 t q.1 q.2 hi]
            simp [h.1, h.2]
      simp only [m5, if_false] at h ⊢
      by_cases m6 : mt = 6
      · simp only [m6, if_true] at h ⊢
        split at h
        · simp at h
        · rename_i hc
          rw [if_neg hc]
          cases hi : decode f (d - 1) r0 with
          | none => simp [hi] at h
          | some q =>
            simp [hi] at h
            rw [decode_append f (d - 1) r0 t q.1 q.2 hi]
            simp only
            rw [length_consumed, List.take_append_of_le_length (by omega)]
            obtain ⟨h1, h2⟩ := h
            subst h2
            simp [h1]
      simp only [m6, if_false] at h ⊢
      repeat (split at h <;> try (rename_i hc; simp at h; simp [*]))
      all_goals simp_all
theorem decodeAnys_append (f d n : Nat) (b t : Bytes) (vs : List AnyVal) (r : Bytes) (h : decodeAnys f d n b = some (vs, r)) :
    decodeAnys f d n (b ++ t) = some (vs, r ++ t) := by
  match f, n with
  | f, 0 => cases f <;> (simp [decodeAnys] at h ⊢; simp [h])
  | 0, n+1 => simp [decodeAnys] at h
  | f+1, n+1 =>
    unfold decodeAnys at h ⊢
    cases h1 : decodeAny f d b with
    | none => simp [h1] at h
    | some q =>
      simp only [h1] at h
      rw [decodeAny_append f d b t q.1 q.2 h1]
      simp only
      cases h2 : decodeAnys f d n q.2 with
      | none => simp [h2] at h
      | some q2 =>
        simp [h2] at h
        rw [decodeAnys_append f d n q.2 t q2.1 q2.2 h2]
        simp [h.1, h.2]
theorem decodeAnyPairs_append (f d n : Nat) (acc : List (AnyVal × AnyVal)) (b t : Bytes) (ps : List (AnyVal × AnyVal)) (r : Bytes)
    (h : decodeAnyPairs f d n acc b = some (ps, r)) : decodeAnyPairs f d n acc (b ++ t) = some (ps, r ++ t) := by
  match f, n with
  | f, 0 => cases f <;> (simp [decodeAnyPairs] at h ⊢; simp [h])
  | 0, n+1 => simp [decodeAnyPairs] at h
  | f+1, n+1 =>
    unfold decodeAnyPairs at h ⊢
    cases h1 : decodeAny f d b with
    | none => simp [h1] at h
    | some q =>
      simp only [h1] at h
      rw [decodeAny_append f d b t q.1 q.2 h1]
      simp only
      cases h2 : decodeAny f d q.2 with
      | none => simp [h2] at h
      | some q2 =>
        simp only [h2] at h
        rw [decodeAny_append f d q.2 t q2.1 q2.2 h2]
        simp only
        split at h
        · simp at h
        · rename_i hc
          rw [if_neg hc]
          exact decodeAnyPairs_append f d n _ q2.2 t ps r h
end

/-! ### typed targets -/

theorem str_app {arg : Nat} {r0 : Bytes} (t : Bytes) (hl : arg ≤ r0.length) :
    (r0 ++ t).take arg = r0.take arg ∧ (r0 ++ t).drop arg = r0.drop arg ++ t ∧ ¬ ((r0 ++ t).length < arg) := by
  refine ⟨List.take_append_of_le_length hl, List.drop_append_of_le_length hl, ?_⟩
  simp; omega

/-- all six decoders of the typed layer at fuel `f` ignore what follows the item -/
def AppAll (ok : CertOracle) (f : Nat) : Prop :=
  (∀ d s b t v r, decodeS ok f d s b = some (v, r) → decodeS ok f d s (b ++ t) = some (v, r ++ t)) ∧
  (∀ d e n b t vs r, decodeElems ok f d e n b = some (vs, r) → decodeElems ok f d e n (b ++ t) = some (vs, r ++ t)) ∧
  (∀ d fs skip b t vs r, decodeFields ok f d fs skip b = some (vs, r) → decodeFields ok f d fs skip (b ++ t) = some (vs, r ++ t)) ∧
  (∀ d ks vs n acc b t ps r, decodeMapPairs ok f d ks vs n acc b = some (ps, r) → decodeMapPairs ok f d ks vs n acc (b ++ t) = some (ps, r ++ t)) ∧
  (∀ d b t m r, decodeHdrMap f d b = some (m, r) → decodeHdrMap f d (b ++ t) = some (m, r ++ t)) ∧
  (∀ d n acc b t m r, hdrPairs f d n acc b = some (m, r) → hdrPairs f d n acc (b ++ t) = some (m, r ++ t))

theorem appAll_zero (ok : CertOracle) : AppAll ok 0 := by
  refine ⟨?_, ?_, ?_, ?_, ?_, ?_⟩
  · intro d s b t v r h; simp [decodeS] at h
  · intro d e n b t vs r h; cases n <;> simp [decodeElems] at h ⊢; simp [h]
  · intro d fs skip b t vs r h; simp [decodeFields] at h
  · intro d ks vs n acc b t ps r h; cases n <;> simp [decodeMapPairs] at h ⊢; simp [h]
  · intro d b t m r h; simp [decodeHdrMap] at h
  · intro d n acc b t m r h; cases n <;> simp [hdrPairs] at h ⊢; simp [h]

theorem app_elems_step (ok : CertOracle) (f : Nat) (ih : AppAll ok f) :
    ∀ d e n b t vs r, decodeElems ok (f + 1) d e n b = some (vs, r) → decodeElems ok (f + 1) d e n (b ++ t) = some (vs, r ++ t) := by
  obtain ⟨iS, iE, _, _, _, _⟩ := ih
  intro d e n b t vs r h
  cases n with
  | zero => simp [decodeElems] at h ⊢; simp [h]
  | succ n =>
    simp only [decodeElems] at h ⊢
    cases h1 : decodeS ok f d e b with
    | none => simp [h1] at h
    | some q =>
      simp only [h1] at h
      rw [iS d e b t q.1 q.2 h1]
      simp only
      cases h2 : decodeElems ok f d e n q.2 with
      | none => simp [h2] at h
      | some q2 =>
        simp [h2] at h
        rw [iE d e n q.2 t q2.1 q2.2 h2]
        simp [h.1, h.2]

theorem app_mapPairs_step (ok : CertOracle) (f : Nat) (ih : AppAll ok f) :
    ∀ d ks vs n acc b t ps r, decodeMapPairs ok (f + 1) d ks vs n acc b = some (ps, r) →
      decodeMapPairs ok (f + 1) d ks vs n acc (b ++ t) = some (ps, r ++ t) := by
  obtain ⟨iS, _, _, iM, _, _⟩ := ih
  intro d ks vs n acc b t ps r h
  cases n with
  | zero => simp [decodeMapPairs] at h ⊢; simp [h]
  | succ n =>
    simp only [decodeMapPairs] at h ⊢
    cases h1 : decodeS ok f d ks b with
    | none => simp [h1] at h
    | some q =>
      obtain ⟨k, rk⟩ := q
      simp only [h1] at h
      rw [iS d ks b t k rk h1]
      simp only
      cases h2 : decodeS ok f d vs rk with
      | none => simp [h2] at h
      | some q2 =>
        obtain ⟨v', rv⟩ := q2
        simp only [h2] at h
        rw [iS d vs rk t v' rv h2]
        simp only
        cases k
        case any a =>
          by_cases hc : a.comparable
          · simp [hc] at h ⊢; exact iM d ks vs n _ rv t ps r h
          · simp [hc] at h
        all_goals (simp at h ⊢; exact iM d ks vs n _ rv t ps r h)

theorem app_hdrPairs_step (ok : CertOracle) (f : Nat) (ih : AppAll ok f) :
    ∀ d n acc b t m r, hdrPairs (f + 1) d n acc b = some (m, r) → hdrPairs (f + 1) d n acc (b ++ t) = some (m, r ++ t) := by
  obtain ⟨_, _, _, _, _, iP⟩ := ih
  intro d n acc b t m r h
  cases n with
  | zero => simp [hdrPairs] at h ⊢; simp [h]
  | succ n =>
    simp only [hdrPairs] at h ⊢
    cases h1 : decode f d b with
    | none => simp [h1] at h
    | some q =>
      obtain ⟨x1, r1⟩ := q
      simp only [h1] at h
      rw [decode_append f d b t x1 r1 h1]
      simp only
      rw [take_consumed]
      cases ha : decodeAny f maxDepth (b.take (b.length - r1.length)) with
      | none => simp [ha] at h
      | some qa =>
        obtain ⟨ka, ra⟩ := qa
        simp only [ha] at h ⊢
        cases ra with
        | cons _ _ => simp at h
        | nil =>
          simp only at h ⊢
          cases hl : labelOfAny ka with
          | none => simp [hl] at h
          | some k =>
            simp only [hl] at h ⊢
            cases h2 : decode f d r1 with
            | none => simp [h2] at h
            | some q2 =>
              obtain ⟨x2, r2⟩ := q2
              simp only [h2] at h
              rw [decode_append f d r1 t x2 r2 h2]
              simp only
              rw [take_consumed]
              cases hv : decodeAny f maxDepth (r1.take (r1.length - r2.length)) with
              | none => simp [hv] at h
              | some qv =>
                obtain ⟨va, rv⟩ := qv
                simp only [hv] at h ⊢
                cases rv with
                | cons _ _ => simp at h
                | nil =>
                  simp only at h ⊢
                  exact iP d n _ r2 t m r h

theorem app_hdrMap_step (ok : CertOracle) (f : Nat) (ih : AppAll ok f) :
    ∀ d b t m r, decodeHdrMap (f + 1) d b = some (m, r) → decodeHdrMap (f + 1) d (b ++ t) = some (m, r ++ t) := by
  obtain ⟨_, _, _, _, _, iP⟩ := ih
  intro d b t m r h
  simp only [decodeHdrMap] at h ⊢
  cases hd : decHead b with
  | none => simp [hd] at h
  | some q =>
    obtain ⟨mt, ai, arg, r0⟩ := q
    simp only [hd] at h
    rw [decHead_append b t hd]
    simp only
    split at h
    · rename_i m5
      simp only [m5, if_true]
      split at h
      · simp at h
      · rename_i hc
        rw [if_neg hc]
        exact iP _ _ _ _ t _ _ h
    · simp at h

theorem app_fields_step (ok : CertOracle) (f : Nat) (ih : AppAll ok f) :
    ∀ d fs skip b t vs r, decodeFields ok (f + 1) d fs skip b = some (vs, r) →
      decodeFields ok (f + 1) d fs skip (b ++ t) = some (vs, r ++ t) := by
  obtain ⟨iS, _, iF, _, iH, _⟩ := ih
  intro d fs skip b t vs r h
  cases fs with
  | nil => simp [decodeFields] at h ⊢; simp [h]
  | cons s o rest =>
    simp only [decodeFields] at h ⊢
    split at h
    · rename_i hos
      rw [if_pos hos]
      cases h1 : decodeFields ok f d rest false b with
      | none => simp [h1] at h
      | some q =>
        simp [h1] at h
        rw [iF d rest false b t q.1 q.2 h1]
        simp [h.1, h.2]
    · rename_i hos
      rw [if_neg hos]
      cases h1 : decodeS ok f d s b with
      | none => simp [h1] at h
      | some q =>
        simp only [h1] at h
        rw [iS d s b t q.1 q.2 h1]
        simp only
        cases h2 : decodeFields ok f d rest skip q.2 with
        | none => simp [h2] at h
        | some q2 =>
          simp [h2] at h
          rw [iF d rest skip q.2 t q2.1 q2.2 h2]
          simp [h.1, h.2]
  | hdr rest =>
    simp only [decodeFields] at h ⊢
    cases h1 : decodeS ok f maxDepth .bytes b with
    | none => simp [h1] at h
    | some q =>
      obtain ⟨v1, r1⟩ := q
      simp only [h1] at h
      rw [iS maxDepth .bytes b t v1 r1 h1]
      cases v1 <;> try (simp at h; done)
      rename_i pb
      simp only at h ⊢
      split at h
      · simp at h
      · rename_i pm hpm
        cases h2 : decodeHdrMap f maxDepth r1 with
        | none => simp [h2] at h
        | some q2 =>
          simp only [h2] at h
          rw [iH maxDepth r1 t q2.1 q2.2 h2]
          simp only
          cases h3 : decodeFields ok f d rest skip q2.2 with
          | none => simp [h3] at h
          | some q3 =>
            simp [h3] at h
            rw [iF d rest skip q2.2 t q3.1 q3.2 h3]
            simp [h.1, h.2]

theorem decodeS_nil (ok : CertOracle) : ∀ (f d : Nat) (s : Schema), decodeS ok f d s [] = none
  | 0, _, _ => by simp [decodeS]
  | f+1, d, s => by
    cases s <;> simp [decodeS, decHead, isNullHead, unwrapBytes]
    case ptr e => rw [decodeS_nil ok f d e]
    case any => cases f <;> simp [decodeAny, decHead]
    all_goals (cases f <;> simp [decode, decHead])

/-- close a branch in which `h` determines the result and the goal computes it again on the longer input -/
macro "app_leaf" h:ident : tactic =>
  `(tactic| (first
      | (simp at $h:ident; done)
      | (simp at $h:ident; obtain ⟨h1, h2⟩ := $h:ident; subst h2; simp_all)
      | (simp_all)))

theorem app_S_step (ok : CertOracle) (f : Nat) (ih : AppAll ok f) :
    ∀ d s b t v r, decodeS ok (f + 1) d s b = some (v, r) → decodeS ok (f + 1) d s (b ++ t) = some (v, r ++ t) := by
  obtain ⟨iS, iE, iF, iM, iH, iP⟩ := ih
  intro d s b t v r h
  cases s with
  | uint max =>
    simp only [decodeS] at h ⊢
    cases hd : decHead b with
    | none => simp [hd] at h
    | some q =>
      obtain ⟨mt, ai, arg, r0⟩ := q
      simp only [hd] at h
      rw [decHead_append b t hd]
      simp only
      repeat' (split at h)
      all_goals app_leaf h
  | int bits =>
    simp only [decodeS] at h ⊢
    cases hd : decHead b with
    | none => simp [hd] at h
    | some q =>
      obtain ⟨mt, ai, arg, r0⟩ := q
      simp only [hd] at h
      rw [decHead_append b t hd]
      simp only
      repeat' (split at h)
      all_goals app_leaf h
  | bool =>
    simp only [decodeS] at h ⊢
    cases hd : decHead b with
    | none => simp [hd] at h
    | some q =>
      obtain ⟨mt, ai, arg, r0⟩ := q
      simp only [hd] at h
      rw [decHead_append b t hd]
      simp only
      repeat' (split at h)
      all_goals app_leaf h
  | text =>
    simp only [decodeS] at h ⊢
    cases hd : decHead b with
    | none => simp [hd] at h
    | some q =>
      obtain ⟨mt, ai, arg, r0⟩ := q
      simp only [hd] at h
      rw [decHead_append b t hd]
      simp only
      by_cases m : mt = 2 ∨ mt = 3
      · simp only [m, if_true] at h ⊢
        split at h
        · simp at h
        · rename_i hc
          simp at h
          obtain ⟨e1, e2, e3⟩ := str_app t (show arg ≤ r0.length by omega)
          have : ¬ (arg ≥ maxLen ∨ (r0 ++ t).length < arg) := by omega
          rw [if_neg this, e1, e2]; simp [h.1, h.2]
      · simp [m] at h
  | bytes =>
    simp only [decodeS] at h ⊢
    cases hd : decHead b with
    | none => simp [hd] at h
    | some q =>
      obtain ⟨mt, ai, arg, r0⟩ := q
      simp only [hd] at h
      rw [decHead_append b t hd]
      simp only
      by_cases m : mt = 2 ∨ mt = 3
      · simp only [m, if_true] at h ⊢
        split at h
        · simp at h
        · rename_i hc
          simp at h
          obtain ⟨e1, e2, e3⟩ := str_app t (show arg ≤ r0.length by omega)
          have : ¬ (arg ≥ maxLen ∨ (r0 ++ t).length < arg) := by omega
          rw [if_neg this, e1, e2]; simp [h.1, h.2]
      · simp only [m, if_false] at h ⊢
        by_cases m4 : mt = 4
        · simp only [m4, if_true] at h ⊢
          split at h
          · simp at h
          · rename_i hc
            rw [if_neg hc]
            cases hi : decodeElems ok f (d - 1) (.uint 255) arg r0 with
            | none => simp [hi] at h
            | some q =>
              simp [hi] at h
              rw [iE _ _ _ _ t _ _ hi]
              simp [h.1, h.2]
        · simp only [m4, if_false] at h ⊢
          split at h
          · rename_i hc; simp at h; simp [hc, h.1, h.2]
          · simp at h
  | fixed n =>
    simp only [decodeS] at h ⊢
    cases hd : decHead b with
    | none => simp [hd] at h
    | some q =>
      obtain ⟨mt, ai, arg, r0⟩ := q
      simp only [hd] at h
      rw [decHead_append b t hd]
      simp only
      by_cases m : mt = 2 ∨ mt = 3
      · simp only [m, if_true] at h ⊢
        split at h
        · simp at h
        · rename_i hc
          simp at h
          obtain ⟨e1, e2, e3⟩ := str_app t (show arg ≤ r0.length by omega)
          have : ¬ (arg ≥ maxLen ∨ (r0 ++ t).length < arg ∨ arg > n) := by omega
          rw [if_neg this, e1, e2]; simp [h.1, h.2]
      · simp only [m, if_false] at h ⊢
        by_cases m4 : mt = 4
        · simp only [m4, if_true] at h ⊢
          split at h
          · simp at h
          · rename_i hc
            rw [if_neg hc]
            cases hi : decodeElems ok f (d - 1) (.uint 255) arg r0 with
            | none => simp [hi] at h
            | some q =>
              simp [hi] at h
              rw [iE _ _ _ _ t _ _ hi]
              simp [h.1, h.2]
        · simp [m4] at h
  | slice e =>
    simp only [decodeS] at h ⊢
    cases hd : decHead b with
    | none => simp [hd] at h
    | some q =>
      obtain ⟨mt, ai, arg, r0⟩ := q
      simp only [hd] at h
      rw [decHead_append b t hd]
      simp only
      by_cases m4 : mt = 4
      · simp only [m4, if_true] at h ⊢
        split at h
        · simp at h
        · rename_i hc
          rw [if_neg hc]
          cases hi : decodeElems ok f (d - 1) e arg r0 with
          | none => simp [hi] at h
          | some q =>
            simp [hi] at h
            rw [iE _ _ _ _ t _ _ hi]
            simp [h.1, h.2]
      · simp only [m4, if_false] at h ⊢
        split at h
        · rename_i hc; simp at h; simp [hc, h.1, h.2]
        · simp at h
  | struct fs =>
    simp only [decodeS] at h ⊢
    cases hd : decHead b with
    | none => simp [hd] at h
    | some q =>
      obtain ⟨mt, ai, arg, r0⟩ := q
      simp only [hd] at h
      rw [decHead_append b t hd]
      simp only
      by_cases m4 : mt = 4
      · simp only [m4, if_true] at h ⊢
        split at h
        · simp at h
        · rename_i hc
          rw [if_neg hc]
          split at h
          · rename_i hs
            rw [if_pos hs]
            cases hi : decodeFields ok f (d - 1) fs false r0 with
            | none => simp [hi] at h
            | some q =>
              simp [hi] at h
              rw [iF _ _ _ _ t _ _ hi]
              simp [h.1, h.2]
          · rename_i hs
            rw [if_neg hs]
            split at h
            · rename_i ho
              rw [if_pos ho]
              cases hi : decodeFields ok f (d - 1) fs true r0 with
              | none => simp [hi] at h
              | some q =>
                simp [hi] at h
                rw [iF _ _ _ _ t _ _ hi]
                simp [h.1, h.2]
            · simp at h
      · simp only [m4, if_false] at h ⊢
        split at h
        · rename_i hc
          rw [if_pos hc]
          cases hn : isNullHead b with
          | none => simp [hn] at h
          | some rn =>
            simp [hn] at h
            rw [isNullHead_append t hn]
            simp [h.1, h.2]
        · simp at h
  | ptr e =>
    simp only [decodeS] at h ⊢
    cases hn : isNullHead b with
    | some rn =>
      simp [hn] at h
      rw [isNullHead_append t hn]
      simp [h.1, h.2]
    | none =>
      simp only [hn] at h
      cases hi : decodeS ok f d e b with
      | none => simp [hi] at h
      | some q =>
        simp [hi] at h
        have hb : b ≠ [] := by
          intro e0; subst e0
          rw [decodeS_nil] at hi; simp at hi
        rw [isNullHead_append_none t hb hn]
        simp only
        rw [iS _ _ _ t _ _ hi]
        simp [h.1, h.2]
  | any =>
    simp only [decodeS] at h ⊢
    cases hi : decodeAny f d b with
    | none => simp [hi] at h
    | some q =>
      simp [hi] at h
      rw [decodeAny_append f d b t q.1 q.2 hi]
      simp [h.1, h.2]
  | mapOf ks vs =>
    simp only [decodeS] at h ⊢
    cases hd : decHead b with
    | none => simp [hd] at h
    | some q =>
      obtain ⟨mt, ai, arg, r0⟩ := q
      simp only [hd] at h
      rw [decHead_append b t hd]
      simp only
      by_cases m5 : mt = 5
      · simp only [m5, if_true] at h ⊢
        split at h
        · simp at h
        · rename_i hc
          rw [if_neg hc]
          cases hi : decodeMapPairs ok f (d - 1) ks vs arg [] r0 with
          | none => simp [hi] at h
          | some q =>
            simp [hi] at h
            rw [iM _ _ _ _ _ _ t _ _ hi]
            simp [h.1, h.2]
      · simp [m5] at h
  | tagAny e =>
    simp only [decodeS] at h ⊢
    cases hd : decHead b with
    | none => simp [hd] at h
    | some q =>
      obtain ⟨mt, ai, arg, r0⟩ := q
      simp only [hd] at h
      rw [decHead_append b t hd]
      simp only
      by_cases m6 : mt = 6
      · simp only [m6, if_true] at h ⊢
        cases hi : decodeS ok f maxDepth e r0 with
        | none => simp [hi] at h
        | some q =>
          simp [hi] at h
          rw [iS _ _ _ t _ _ hi]
          simp [h.1, h.2]
      · simp [m6] at h
  | tagNum n e =>
    simp only [decodeS] at h ⊢
    cases hi : decode f d b with
    | none => simp [hi] at h
    | some q =>
      obtain ⟨x, rr⟩ := q
      simp only [hi] at h
      rw [decode_append f d b t x rr hi]
      simp only
      rw [take_consumed]
      repeat' (split at h)
      all_goals app_leaf h
  | bstr e =>
    simp only [decodeS] at h ⊢
    cases hu : unwrapBytes b with
    | none => simp [hu] at h
    | some o =>
      cases o with
      | none =>
        simp only [hu] at h
        rw [unwrapBytes_append_null t hu]
        simp only
        cases hn : isNullHead b with
        | none => simp [hn] at h
        | some rn =>
          simp [hn] at h
          rw [isNullHead_append t hn]
          simp [h.1, h.2]
      | some p =>
        obtain ⟨n, r0⟩ := p
        simp only [hu] at h
        rw [unwrapBytes_append t hu]
        simp only
        split at h
        · simp at h
        · rename_i hc
          obtain ⟨e1, e2, e3⟩ := str_app t (show n ≤ r0.length by omega)
          rw [if_neg e3, e1, e2]
          repeat' (split at h)
          all_goals app_leaf h
  | wrap e =>
    simp only [decodeS] at h ⊢
    cases hu : unwrapBytes b with
    | none => simp [hu] at h
    | some o =>
      cases o with
      | none =>
        simp only [hu] at h
        rw [unwrapBytes_append_null t hu]
        simp only
        cases hn : isNullHead b with
        | none => simp [hn] at h
        | some rn =>
          simp [hn] at h
          rw [isNullHead_append t hn]
          simp [h.1, h.2]
      | some p =>
        obtain ⟨n, r0⟩ := p
        simp only [hu] at h
        rw [unwrapBytes_append t hu]
        simp only
        split at h
        · simp at h
        · rename_i hc
          obtain ⟨e1, e2, e3⟩ := str_app t (show n ≤ r0.length by omega)
          rw [if_neg e3, e1, e2]
          repeat' (split at h)
          all_goals app_leaf h
  | wrapBytes =>
    simp only [decodeS] at h ⊢
    cases hu : unwrapBytes b with
    | none => simp [hu] at h
    | some o =>
      cases o with
      | none =>
        simp only [hu] at h
        rw [unwrapBytes_append_null t hu]
        simp only
        cases hn : isNullHead b with
        | none => simp [hn] at h
        | some rn =>
          simp [hn] at h
          rw [isNullHead_append t hn]
          simp [h.1, h.2]
      | some p =>
        obtain ⟨n, r0⟩ := p
        simp only [hu] at h
        rw [unwrapBytes_append t hu]
        simp only
        split at h
        · simp at h
        · rename_i hc
          obtain ⟨e1, e2, e3⟩ := str_app t (show n ≤ r0.length by omega)
          rw [if_neg e3, e1, e2]
          simp at h
          simp [h.1, h.2]
  | raw =>
    simp only [decodeS] at h ⊢
    cases hi : decode f d b with
    | none => simp [hi] at h
    | some q =>
      obtain ⟨x, rr⟩ := q
      simp [hi] at h
      rw [decode_append f d b t x rr hi]
      simp only
      rw [take_consumed]
      obtain ⟨h1, h2⟩ := h
      subst h2
      simp [h1]
  | viaRaw e =>
    simp only [decodeS] at h ⊢
    cases hi : decode f d b with
    | none => simp [hi] at h
    | some q =>
      obtain ⟨x, rr⟩ := q
      simp only [hi] at h
      rw [decode_append f d b t x rr hi]
      simp only
      rw [take_consumed]
      repeat' (split at h)
      all_goals app_leaf h
  | label =>
    simp only [decodeS] at h ⊢
    cases hi : decode f d b with
    | none => simp [hi] at h
    | some q =>
      obtain ⟨x, rr⟩ := q
      simp only [hi] at h
      rw [decode_append f d b t x rr hi]
      simp only
      rw [take_consumed]
      repeat' (split at h)
      all_goals app_leaf h
  | cert =>
    simp only [decodeS] at h ⊢
    cases hu : unwrapBytes b with
    | none => simp [hu] at h
    | some o =>
      cases o with
      | none =>
        simp only [hu] at h
        rw [unwrapBytes_append_null t hu]
        simp only
        cases hn : isNullHead b with
        | none => simp [hn] at h
        | some rn =>
          simp [hn] at h
          rw [isNullHead_append t hn]
          simp [h.1, h.2]
      | some p =>
        obtain ⟨n, r0⟩ := p
        simp only [hu] at h
        rw [unwrapBytes_append t hu]
        simp only
        split at h
        · simp at h
        · rename_i hc
          obtain ⟨e1, e2, e3⟩ := str_app t (show n ≤ r0.length by omega)
          rw [if_neg e3, e1, e2]
          repeat' (split at h)
          all_goals app_leaf h
  | timestamp =>
    simp only [decodeS] at h ⊢
    cases hd : decHead b with
    | none => simp [hd] at h
    | some q =>
      obtain ⟨mt, ai, arg, r0⟩ := q
      simp only [hd] at h
      rw [decHead_append b t hd]
      simp only
      split at h
      · rename_i hc; simp at h; simp [hc, h.1, h.2]
      · rename_i hc
        rw [if_neg hc]
        by_cases m6 : mt = 6
        · simp only [m6, if_true] at h ⊢
          by_cases hn : (if ai ≥ 28 then ai else arg) = 1
          · simp only [hn, if_true] at h ⊢
            cases hi : decodeS ok f maxDepth (.int 64) r0 with
            | none => simp [hi] at h
            | some q =>
              obtain ⟨vi, ri⟩ := q
              simp only [hi] at h
              rw [iS _ _ _ t _ _ hi]
              cases vi <;> simp at h ⊢
              simp [h.1, h.2]
          · simp [hn] at h
        · simp [m6] at h
  | chunk =>
    simp only [decodeS] at h ⊢
    cases hi : decode f d b with
    | none => simp [hi] at h
    | some q =>
      obtain ⟨x, rr⟩ := q
      simp only [hi] at h
      rw [decode_append f d b t x rr hi]
      simp only
      rw [take_consumed]
      repeat' (split at h)
      all_goals app_leaf h
  | coseKey =>
    simp only [decodeS] at h ⊢
    cases hi : decode f d b with
    | none => simp [hi] at h
    | some q =>
      obtain ⟨x, rr⟩ := q
      simp only [hi] at h
      rw [decode_append f d b t x rr hi]
      simp only
      rw [take_consumed]
      repeat' (split at h)
      all_goals app_leaf h

theorem appAll (ok : CertOracle) (f : Nat) : AppAll ok f := by
  induction f with
  | zero => exact appAll_zero ok
  | succ f ih =>
    exact ⟨app_S_step ok f ih, app_elems_step ok f ih, app_fields_step ok f ih, app_mapPairs_step ok f ih,
      app_hdrMap_step ok f ih, app_hdrPairs_step ok f ih⟩

/-- **The typed decoder never looks past the item it reads.** -/
theorem decodeS_append (ok : CertOracle) (f d : Nat) (s : Schema) (b t : Bytes) (v : Val) (r : Bytes)
    (h : decodeS ok f d s b = some (v, r)) : decodeS ok f d s (b ++ t) = some (v, r ++ t) :=
  (appAll ok f).1 d s b t v r h

end Fdo.Cbor
