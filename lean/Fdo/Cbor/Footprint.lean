import Fdo.Cbor.Fuel
/-
What a decode can build is paid for by input bytes actually read: the decoded value's footprint
(one unit per node, one per string byte) never exceeds the number of bytes consumed. A head that
merely *claims* a length contributes nothing until the items or bytes it announces have been read.
-/
namespace Fdo.Cbor
open Fdo

mutual
/-- Nodes plus string bytes of a decoded value: proportional to the memory a decoder that allocates
as data arrives needs for it. -/
def Item.footprint : Item → Nat
  | .bstr b => 1 + b.length
  | .tstr b => 1 + b.length
  | .arr xs => 1 + xs.footprint
  | .map ps => 1 + ps.footprint
  | .tag _ x => 1 + x.footprint
  | _ => 1
def Items.footprint : Items → Nat
  | .nil => 0
  | .cons x xs => x.footprint + xs.footprint
def Pairs.footprint : Pairs → Nat
  | .nil => 0
  | .cons k v ps => k.footprint + v.footprint + ps.footprint
end

mutual
theorem decode_footprint (f d : Nat) (b : Bytes) (v : Item) (r : Bytes) (h : decode f d b = some (v, r)) :
    v.footprint + r.length ≤ b.length := by
  match f with
  | 0 => simp [decode] at h
  | f+1 =>
    unfold decode at h
    cases hd : decHead b with
    | none => simp [hd] at h
    | some q =>
      obtain ⟨mt, ai, arg, r0⟩ := q
      have h0 := decHead_len b mt ai arg r0 hd
      simp only [hd] at h
      by_cases hm0 : mt = 0
      · simp only [hm0, if_true] at h; simp at h; obtain ⟨hv, hr⟩ := h; subst hv hr; simp [Item.footprint]; omega
      simp only [hm0, if_false] at h
      by_cases hm1 : mt = 1
      · simp only [hm1, if_true] at h; simp at h; obtain ⟨hv, hr⟩ := h; subst hv hr; simp [Item.footprint]; omega
      simp only [hm1, if_false] at h
      by_cases hm2 : mt = 2
      · simp only [hm2, if_true] at h
        split at h
        · simp at h
        · simp at h; obtain ⟨hv, hr⟩ := h; subst hv hr; simp [Item.footprint]; omega
      simp only [hm2, if_false] at h
      by_cases hm3 : mt = 3
      · simp only [hm3, if_true] at h
        split at h
        · simp at h
        · simp at h; obtain ⟨hv, hr⟩ := h; subst hv hr; simp [Item.footprint]; omega
      simp only [hm3, if_false] at h
      by_cases hm4 : mt = 4
      · simp only [hm4, if_true] at h
        split at h
        · simp at h
        · cases hi : decodeItems f (d - 1) arg r0 with
          | none => simp [hi] at h
          | some q =>
            obtain ⟨xs, r1⟩ := q
            simp only [hi] at h; simp at h; obtain ⟨hv, hr⟩ := h; subst hv hr
            have := decodeItems_footprint f (d - 1) arg r0 xs r1 hi
            simp [Item.footprint]; omega
      simp only [hm4, if_false] at h
      by_cases hm5 : mt = 5
      · simp only [hm5, if_true] at h
        split at h
        · simp at h
        · cases hi : decodePairs f (d - 1) arg r0 with
          | none => simp [hi] at h
          | some q =>
            obtain ⟨ps, r1⟩ := q
            simp only [hi] at h; simp at h; obtain ⟨hv, hr⟩ := h; subst hv hr
            have := decodePairs_footprint f (d - 1) arg r0 ps r1 hi
            simp [Item.footprint]; omega
      simp only [hm5, if_false] at h
      by_cases hm6 : mt = 6
      · simp only [hm6, if_true] at h
        split at h
        · simp at h
        · cases hi : decode f (d - 1) r0 with
          | none => simp [hi] at h
          | some q =>
            obtain ⟨x, r1⟩ := q
            simp only [hi] at h; simp at h; obtain ⟨hv, hr⟩ := h; subst hv hr
            have := decode_footprint f (d - 1) r0 x r1 hi
            simp [Item.footprint]; omega
      simp only [hm6, if_false] at h
      split at h <;> (simp at h; obtain ⟨hv, hr⟩ := h; subst hv hr; simp [Item.footprint]; omega)
theorem decodeItems_footprint (f d n : Nat) (b : Bytes) (xs : Items) (r : Bytes)
    (h : decodeItems f d n b = some (xs, r)) : xs.footprint + r.length ≤ b.length ∧ xs.length = n := by
  match f, n with
  | f, 0 => cases f <;> (simp [decodeItems] at h; obtain ⟨hv, hr⟩ := h; subst hv hr; simp [Items.footprint, Items.length])
  | 0, n+1 => simp [decodeItems] at h
  | f+1, n+1 =>
    unfold decodeItems at h
    cases h1 : decode f d b with
    | none => simp [h1] at h
    | some q =>
      obtain ⟨x, r1⟩ := q
      simp only [h1] at h
      cases h2 : decodeItems f d n r1 with
      | none => simp [h2] at h
      | some q =>
        obtain ⟨ys, r2⟩ := q
        simp only [h2] at h; simp at h; obtain ⟨hv, hr⟩ := h; subst hv hr
        have a := decode_footprint f d b x r1 h1
        have b := decodeItems_footprint f d n r1 ys r2 h2
        simp [Items.footprint, Items.length]; omega
theorem decodePairs_footprint (f d n : Nat) (b : Bytes) (ps : Pairs) (r : Bytes)
    (h : decodePairs f d n b = some (ps, r)) : ps.footprint + r.length ≤ b.length ∧ ps.length = n := by
  match f, n with
  | f, 0 => cases f <;> (simp [decodePairs] at h; obtain ⟨hv, hr⟩ := h; subst hv hr; simp [Pairs.footprint, Pairs.length])
  | 0, n+1 => simp [decodePairs] at h
  | f+1, n+1 =>
    unfold decodePairs at h
    cases h1 : decode f d b with
    | none => simp [h1] at h
    | some q =>
      obtain ⟨k, r1⟩ := q
      simp only [h1] at h
      cases h2 : decode f d r1 with
      | none => simp [h2] at h
      | some q =>
        obtain ⟨v, r2⟩ := q
        simp only [h2] at h
        cases h3 : decodePairs f d n r2 with
        | none => simp [h3] at h
        | some q =>
          obtain ⟨ys, r3⟩ := q
          simp only [h3] at h; simp at h; obtain ⟨hv, hr⟩ := h; subst hv hr
          have a := decode_footprint f d b k r1 h1
          have c := decode_footprint f d r1 v r2 h2
          have e := decodePairs_footprint f d n r2 ys r3 h3
          simp [Pairs.footprint, Pairs.length]; omega
end

theorem Items.length_le_footprint (xs : Items) : xs.length ≤ xs.footprint := by
  match xs with
  | .nil => simp [Items.length]
  | .cons x xs =>
    have := Items.length_le_footprint xs
    have hx : 1 ≤ x.footprint := by cases x <;> simp [Item.footprint] <;> omega
    simp [Items.length, Items.footprint]; omega

theorem Pairs.length_le_footprint (ps : Pairs) : 2 * ps.length ≤ ps.footprint := by
  match ps with
  | .nil => simp [Pairs.length]
  | .cons k v ps =>
    have := Pairs.length_le_footprint ps
    have hk : 1 ≤ k.footprint := by cases k <;> simp [Item.footprint] <;> omega
    have hv : 1 ≤ v.footprint := by cases v <;> simp [Item.footprint] <;> omega
    simp [Pairs.length, Pairs.footprint]; omega

end Fdo.Cbor
