import Fdo.Cbor.TypedAppend
import Fdo.Cbor.TypedSuffix
/-
What the typed decoder returns depends on the bytes it consumed and on nothing else: the consumed prefix,
decoded alone, yields the same value and nothing left. Together with `decodeS_append` this is
"exact consumption" in both directions for every decode target.
-/
namespace Fdo.Cbor
open Fdo

theorem isNullHead_split {b r : Bytes} (h : isNullHead b = some r) : ∃ p, b = p ++ r ∧ isNullHead p = some [] := by
  rw [isNullHead_first] at h
  cases b with
  | nil => simp at h
  | cons x xs =>
    simp only at h
    split at h
    · rename_i hc
      simp at h; subst h
      exact ⟨[x], by simp, by rw [isNullHead_first]; simp [hc]⟩
    · simp at h

theorem unwrapBytes_split {b r0 : Bytes} {n : Nat} (h : unwrapBytes b = some (some (n, r0))) :
    ∃ hd, b = hd ++ r0 ∧ 1 ≤ hd.length ∧ ∀ t, unwrapBytes (hd ++ t) = some (some (n, t)) := by
  unfold unwrapBytes at h
  cases hd : decHead b with
  | none => simp [hd] at h
  | some q =>
    obtain ⟨mt, ai, arg, r1⟩ := q
    obtain ⟨hb, hbe, hbl, hbd⟩ := decHead_split b hd
    simp only [hd] at h
    split at h
    · simp at h
    · rename_i hc
      split at h
      · rename_i hm
        simp at h
        obtain ⟨h1, h2⟩ := h
        subst h2
        refine ⟨hb, hbe, hbl, ?_⟩
        intro t
        unfold unwrapBytes
        rw [hbd t]
        simp [hc, hm, h1]
      · simp at h

theorem unwrapBytes_null_split {b : Bytes} (h : unwrapBytes b = some none) (r : Bytes) (hn : isNullHead b = some r) :
    ∃ p, b = p ++ r ∧ unwrapBytes p = some none ∧ isNullHead p = some [] := by
  obtain ⟨p, hp, hp2⟩ := isNullHead_split hn
  refine ⟨p, hp, ?_, hp2⟩
  -- p is the single byte f6/f7
  rw [isNullHead_first] at hp2
  cases p with
  | nil => simp at hp2
  | cons x xs =>
    simp only at hp2
    split at hp2
    · rename_i hc
      simp at hp2; subst hp2
      have hx : x.toNat < 256 := UInt8.toNat_lt x
      have h7 : x.toNat / 32 = 7 ∧ (x.toNat % 32 = 22 ∨ x.toNat % 32 = 23) := by omega
      have h24 : x.toNat % 32 < 24 := by omega
      simp [unwrapBytes, decHead, h24, h7]
    · simp at hp2

/-! ### `any` targets -/

mutual
theorem decodeAny_split (f d : Nat) (b : Bytes) (v : AnyVal) (r : Bytes) (h : decodeAny f d b = some (v, r)) :
    ∃ p, b = p ++ r ∧ decodeAny f d p = some (v, []) := by
  match f with
  | 0 => simp [decodeAny] at h
  | f+1 =>
    unfold decodeAny at h
    cases hd : decHead b with
    | none => simp [hd] at h
    | some q =>
      obtain ⟨mt, ai, arg, r0⟩ := q
      obtain ⟨hb, hbe, hbl, hbd⟩ := decHead_split b hd
      have hb0 := hbd []; simp at hb0
      simp only [hd] at h
      by_cases m0 : mt = 0
      · simp only [m0, if_true] at h
        split at h <;> simp at h
        rename_i hc
        refine ⟨hb, by rw [hbe, h.2], ?_⟩
        unfold decodeAny; simp [hb0, m0, hc, h.1]
      simp only [m0, if_false] at h
      by_cases m1 : mt = 1
      · simp only [m1, if_true] at h
        split at h <;> simp at h
        rename_i hc
        refine ⟨hb, by rw [hbe, h.2], ?_⟩
        unfold decodeAny; simp [hb0, m1, hc, h.1]
      simp only [m1, if_false] at h
      by_cases m2 : mt = 2
      · simp only [m2, if_true] at h
        split at h
        · simp at h
        · rename_i hc
          simp at h
          have hl : arg ≤ r0.length := by omega
          refine ⟨hb ++ r0.take arg, by rw [hbe, ← h.2]; simp, ?_⟩
          unfold decodeAny; rw [hbd (r0.take arg)]
          have : ¬ (arg ≥ maxLen ∨ (r0.take arg).length < arg) := by simp; omega
          simp only [m2, if_true, m0, m1, if_false]
          rw [if_neg this]
          simp [h.1, List.take_take, List.drop_eq_nil_of_le, hl]
          all_goals omega
      simp only [m2, if_false] at h
      by_cases m3 : mt = 3
      · simp only [m3, if_true] at h
        split at h
        · simp at h
        · rename_i hc
          simp at h
          have hl : arg ≤ r0.length := by omega
          refine ⟨hb ++ r0.take arg, by rw [hbe, ← h.2]; simp, ?_⟩
          unfold decodeAny; rw [hbd (r0.take arg)]
          have : ¬ (arg ≥ maxLen ∨ (r0.take arg).length < arg) := by simp; omega
          simp only [m3, if_true, m0, m1, m2, if_false]
          rw [if_neg this]
          simp [h.1, List.take_take, List.drop_eq_nil_of_le, hl]
          all_goals omega
      simp only [m3, if_false] at h
      by_cases m4 : mt = 4
      · simp only [m4, if_true] at h
        split at h
        · simp at h
        · rename_i hc
          cases hi : decodeAnys f (d - 1) arg r0 with
          | none => simp [hi] at h
          | some q =>
            obtain ⟨xs, r1⟩ := q
            simp [hi] at h
            obtain ⟨q, hq, hq2⟩ := decodeAnys_split f (d - 1) arg r0 xs r1 hi
            refine ⟨hb ++ q, by rw [hbe, hq, h.2]; simp, ?_⟩
            unfold decodeAny; rw [hbd q]
            simp [m4, hc, hq2, h.1]
      simp only [m4, if_false] at h
      by_cases m5 : mt = 5
      · simp only [m5, if_true] at h
        split at h
        · simp at h
        · rename_i hc
          cases hi : decodeAnyPairs f (d - 1) arg [] r0 with
          | none => simp [hi] at h
          | some q =>
            obtain ⟨xs, r1⟩ := q
            simp [hi] at h
            obtain ⟨q, hq, hq2⟩ := decodeAnyPairs_split f (d - 1) arg [] r0 xs r1 hi
            refine ⟨hb ++ q, by rw [hbe, hq, h.2]; simp, ?_⟩
            unfold decodeAny; rw [hbd q]
            simp [m5, hc, hq2, h.1]
      simp only [m5, if_false] at h
      by_cases m6 : mt = 6
      · simp only [m6, if_true] at h
        split at h
        · simp at h
        · rename_i hc
          cases hi : decode f (d - 1) r0 with
          | none => simp [hi] at h
          | some q =>
            obtain ⟨x, r1⟩ := q
            simp [hi] at h
            obtain ⟨q, hq, hql, hq2⟩ := decode_split f (d - 1) r0 x r1 hi
            refine ⟨hb ++ q, by rw [hbe, hq, h.2]; simp, ?_⟩
            unfold decodeAny; rw [hbd q]
            simp only [m6, if_true, m0, m1, m2, m3, m4, m5, if_false, hc, hq2]
            have e1 : r0.length - r1.length = q.length := by rw [hq]; simp
            rw [e1, hq] at h
            simp at h
            simp [h.1]
      simp only [m6, if_false] at h
      repeat (split at h <;> try (rename_i hc; simp at h; exact ⟨hb, by rw [hbe, h.2], by unfold decodeAny; simp [hb0, *]⟩))
      simp at h
theorem decodeAnys_split (f d n : Nat) (b : Bytes) (vs : List AnyVal) (r : Bytes) (h : decodeAnys f d n b = some (vs, r)) :
    ∃ p, b = p ++ r ∧ decodeAnys f d n p = some (vs, []) := by
  match f, n with
  | f, 0 => cases f <;> (simp [decodeAnys] at h; exact ⟨[], by simp [h], by simp [decodeAnys, h]⟩)
  | 0, n+1 => simp [decodeAnys] at h
  | f+1, n+1 =>
    unfold decodeAnys at h
    cases h1 : decodeAny f d b with
    | none => simp [h1] at h
    | some q =>
      obtain ⟨x, r1⟩ := q
      simp only [h1] at h
      cases h2 : decodeAnys f d n r1 with
      | none => simp [h2] at h
      | some q2 =>
        obtain ⟨xs, r2⟩ := q2
        simp [h2] at h
        obtain ⟨p1, hp1, hd1⟩ := decodeAny_split f d b x r1 h1
        obtain ⟨p2, hp2, hd2⟩ := decodeAnys_split f d n r1 xs r2 h2
        refine ⟨p1 ++ p2, by rw [hp1, hp2, h.2]; simp, ?_⟩
        unfold decodeAnys
        have := decodeAny_append f d p1 p2 x [] hd1
        simp at this
        simp [this, hd2, h.1]
theorem decodeAnyPairs_split (f d n : Nat) (acc : List (AnyVal × AnyVal)) (b : Bytes) (ps : List (AnyVal × AnyVal)) (r : Bytes)
    (h : decodeAnyPairs f d n acc b = some (ps, r)) : ∃ p, b = p ++ r ∧ decodeAnyPairs f d n acc p = some (ps, []) := by
  match f, n with
  | f, 0 => cases f <;> (simp [decodeAnyPairs] at h; exact ⟨[], by simp [h], by simp [decodeAnyPairs, h]⟩)
  | 0, n+1 => simp [decodeAnyPairs] at h
  | f+1, n+1 =>
    unfold decodeAnyPairs at h
    cases h1 : decodeAny f d b with
    | none => simp [h1] at h
    | some q =>
      obtain ⟨k, r1⟩ := q
      simp only [h1] at h
      cases h2 : decodeAny f d r1 with
      | none => simp [h2] at h
      | some q2 =>
        obtain ⟨v, r2⟩ := q2
        simp only [h2] at h
        split at h
        · simp at h
        · rename_i hc
          obtain ⟨p1, hp1, hd1⟩ := decodeAny_split f d b k r1 h1
          obtain ⟨p2, hp2, hd2⟩ := decodeAny_split f d r1 v r2 h2
          obtain ⟨p3, hp3, hd3⟩ := decodeAnyPairs_split f d n _ r2 ps r h
          refine ⟨p1 ++ (p2 ++ p3), by rw [hp1, hp2, hp3]; simp, ?_⟩
          unfold decodeAnyPairs
          have e1 := decodeAny_append f d p1 (p2 ++ p3) k [] hd1
          have e2 := decodeAny_append f d p2 p3 v [] hd2
          simp at e1 e2
          simp [e1, e2, hc, hd3]
end

/-! ### typed targets -/

def SplitAll (ok : CertOracle) (f : Nat) : Prop :=
  (∀ d s b v r, decodeS ok f d s b = some (v, r) → ∃ p, b = p ++ r ∧ decodeS ok f d s p = some (v, [])) ∧
  (∀ d e n b vs r, decodeElems ok f d e n b = some (vs, r) → ∃ p, b = p ++ r ∧ decodeElems ok f d e n p = some (vs, [])) ∧
  (∀ d fs skip b vs r, decodeFields ok f d fs skip b = some (vs, r) → ∃ p, b = p ++ r ∧ decodeFields ok f d fs skip p = some (vs, [])) ∧
  (∀ d ks vs n acc b ps r, decodeMapPairs ok f d ks vs n acc b = some (ps, r) →
    ∃ p, b = p ++ r ∧ decodeMapPairs ok f d ks vs n acc p = some (ps, [])) ∧
  (∀ d b m r, decodeHdrMap f d b = some (m, r) → ∃ p, b = p ++ r ∧ decodeHdrMap f d p = some (m, [])) ∧
  (∀ d n acc b m r, hdrPairs f d n acc b = some (m, r) → ∃ p, b = p ++ r ∧ hdrPairs f d n acc p = some (m, []))

theorem splitAll_zero (ok : CertOracle) : SplitAll ok 0 := by
  refine ⟨?_, ?_, ?_, ?_, ?_, ?_⟩
  · intro d s b v r h; simp [decodeS] at h
  · intro d e n b vs r h; cases n <;> simp [decodeElems] at h; exact ⟨[], by simp [h], by simp [decodeElems, h]⟩
  · intro d fs skip b vs r h; simp [decodeFields] at h
  · intro d ks vs n acc b ps r h; cases n <;> simp [decodeMapPairs] at h; exact ⟨[], by simp [h], by simp [decodeMapPairs, h]⟩
  · intro d b m r h; simp [decodeHdrMap] at h
  · intro d n acc b m r h; cases n <;> simp [hdrPairs] at h; exact ⟨[], by simp [h], by simp [hdrPairs, h]⟩

/-- appending to an input that was consumed entirely -/
theorem app0 {ok : CertOracle} {f d : Nat} {s : Schema} {p : Bytes} {v : Val} (t : Bytes)
    (h : decodeS ok f d s p = some (v, [])) : decodeS ok f d s (p ++ t) = some (v, t) := by
  simpa using decodeS_append ok f d s p t v [] h

theorem split_elems_step (ok : CertOracle) (f : Nat) (ih : SplitAll ok f) :
    ∀ d e n b vs r, decodeElems ok (f + 1) d e n b = some (vs, r) → ∃ p, b = p ++ r ∧ decodeElems ok (f + 1) d e n p = some (vs, []) := by
  obtain ⟨iS, iE, _, _, _, _⟩ := ih
  intro d e n b vs r h
  cases n with
  | zero => simp [decodeElems] at h; exact ⟨[], by simp [h], by simp [decodeElems, h]⟩
  | succ n =>
    simp only [decodeElems] at h
    cases h1 : decodeS ok f d e b with
    | none => simp [h1] at h
    | some q =>
      obtain ⟨v1, r1⟩ := q
      simp only [h1] at h
      cases h2 : decodeElems ok f d e n r1 with
      | none => simp [h2] at h
      | some q2 =>
        obtain ⟨vs2, r2⟩ := q2
        simp [h2] at h
        obtain ⟨p1, hp1, hd1⟩ := iS d e b v1 r1 h1
        obtain ⟨p2, hp2, hd2⟩ := iE d e n r1 vs2 r2 h2
        refine ⟨p1 ++ p2, by rw [hp1, hp2, h.2]; simp, ?_⟩
        simp only [decodeElems, app0 p2 hd1, hd2]
        simp [h.1]

theorem split_mapPairs_step (ok : CertOracle) (f : Nat) (ih : SplitAll ok f) :
    ∀ d ks vs n acc b ps r, decodeMapPairs ok (f + 1) d ks vs n acc b = some (ps, r) →
      ∃ p, b = p ++ r ∧ decodeMapPairs ok (f + 1) d ks vs n acc p = some (ps, []) := by
  obtain ⟨iS, _, _, iM, _, _⟩ := ih
  intro d ks vs n acc b ps r h
  cases n with
  | zero => simp [decodeMapPairs] at h; exact ⟨[], by simp [h], by simp [decodeMapPairs, h]⟩
  | succ n =>
    simp only [decodeMapPairs] at h
    cases h1 : decodeS ok f d ks b with
    | none => simp [h1] at h
    | some q =>
      obtain ⟨k, rk⟩ := q
      simp only [h1] at h
      cases h2 : decodeS ok f d vs rk with
      | none => simp [h2] at h
      | some q2 =>
        obtain ⟨v', rv⟩ := q2
        simp only [h2] at h
        obtain ⟨p1, hp1, hd1⟩ := iS d ks b k rk h1
        obtain ⟨p2, hp2, hd2⟩ := iS d vs rk v' rv h2
        have fin : ∀ acc', decodeMapPairs ok f d ks vs n acc' rv = some (ps, r) →
            ∃ p3, rv = p3 ++ r ∧ decodeMapPairs ok f d ks vs n acc' p3 = some (ps, []) := fun acc' hm => iM d ks vs n acc' rv ps r hm
        cases k
        case any a =>
          by_cases hc : a.comparable
          · simp [hc] at h
            obtain ⟨p3, hp3, hd3⟩ := fin _ h
            refine ⟨p1 ++ (p2 ++ p3), by rw [hp1, hp2, hp3]; simp, ?_⟩
            simp only [decodeMapPairs, app0 (p2 ++ p3) hd1, app0 p3 hd2]
            simp [hc, hd3]
          · simp [hc] at h
        all_goals (
          simp at h
          obtain ⟨p3, hp3, hd3⟩ := fin _ h
          refine ⟨p1 ++ (p2 ++ p3), by rw [hp1, hp2, hp3]; simp, ?_⟩
          simp only [decodeMapPairs, app0 (p2 ++ p3) hd1, app0 p3 hd2]
          simp [hd3])

theorem take_all_consumed (q t : Bytes) : (q ++ t).take ((q ++ t).length - t.length) = q := by
  have : (q ++ t).length - t.length = q.length := by simp
  rw [this]; simp

theorem split_hdrPairs_step (ok : CertOracle) (f : Nat) (ih : SplitAll ok f) :
    ∀ d n acc b m r, hdrPairs (f + 1) d n acc b = some (m, r) → ∃ p, b = p ++ r ∧ hdrPairs (f + 1) d n acc p = some (m, []) := by
  obtain ⟨_, _, _, _, _, iP⟩ := ih
  intro d n acc b m r h
  cases n with
  | zero => simp [hdrPairs] at h; exact ⟨[], by simp [h], by simp [hdrPairs, h]⟩
  | succ n =>
    simp only [hdrPairs] at h
    cases h1 : decode f d b with
    | none => simp [h1] at h
    | some q =>
      obtain ⟨x1, r1⟩ := q
      simp only [h1] at h
      obtain ⟨p1, hp1, _, hd1⟩ := decode_split f d b x1 r1 h1
      have e1 : b.take (b.length - r1.length) = p1 := by rw [hp1]; exact take_all_consumed p1 r1
      rw [e1] at h
      cases ha : decodeAny f maxDepth p1 with
      | none => simp [ha] at h
      | some qa =>
        obtain ⟨ka, ra⟩ := qa
        simp only [ha] at h
        cases ra with
        | cons _ _ => simp at h
        | nil =>
          simp only at h
          cases hl : labelOfAny ka with
          | none => simp [hl] at h
          | some k =>
            simp only [hl] at h
            cases h2 : decode f d r1 with
            | none => simp [h2] at h
            | some q2 =>
              obtain ⟨x2, r2⟩ := q2
              simp only [h2] at h
              obtain ⟨p2, hp2, _, hd2⟩ := decode_split f d r1 x2 r2 h2
              have e2 : r1.take (r1.length - r2.length) = p2 := by rw [hp2]; exact take_all_consumed p2 r2
              rw [e2] at h
              cases hv : decodeAny f maxDepth p2 with
              | none => simp [hv] at h
              | some qv =>
                obtain ⟨va, rv⟩ := qv
                simp only [hv] at h
                cases rv with
                | cons _ _ => simp at h
                | nil =>
                  simp only at h
                  obtain ⟨p3, hp3, hd3⟩ := iP d n _ r2 m r h
                  refine ⟨p1 ++ (p2 ++ p3), by rw [hp1, hp2, hp3]; simp, ?_⟩
                  have a1 := decode_append f d p1 (p2 ++ p3) x1 [] hd1
                  have a2 := decode_append f d p2 p3 x2 [] hd2
                  simp at a1 a2
                  simp only [hdrPairs, a1, take_all_consumed, ha, hl, a2, hv, hd3]

theorem split_hdrMap_step (ok : CertOracle) (f : Nat) (ih : SplitAll ok f) :
    ∀ d b m r, decodeHdrMap (f + 1) d b = some (m, r) → ∃ p, b = p ++ r ∧ decodeHdrMap (f + 1) d p = some (m, []) := by
  obtain ⟨_, _, _, _, _, iP⟩ := ih
  intro d b m r h
  simp only [decodeHdrMap] at h
  cases hd : decHead b with
  | none => simp [hd] at h
  | some q =>
    obtain ⟨mt, ai, arg, r0⟩ := q
    obtain ⟨hb, hbe, hbl, hbd⟩ := decHead_split b hd
    simp only [hd] at h
    split at h
    · rename_i m5
      split at h
      · simp at h
      · rename_i hc
        obtain ⟨q, hq, hq2⟩ := iP _ _ _ _ _ _ h
        refine ⟨hb ++ q, by rw [hbe, hq]; simp, ?_⟩
        simp only [decodeHdrMap, hbd q, m5, if_true]
        rw [if_neg hc]; exact hq2
    · simp at h

theorem split_fields_step (ok : CertOracle) (f : Nat) (ih : SplitAll ok f) :
    ∀ d fs skip b vs r, decodeFields ok (f + 1) d fs skip b = some (vs, r) →
      ∃ p, b = p ++ r ∧ decodeFields ok (f + 1) d fs skip p = some (vs, []) := by
  obtain ⟨iS, _, iF, _, iH, _⟩ := ih
  intro d fs skip b vs r h
  cases fs with
  | nil => simp [decodeFields] at h; exact ⟨[], by simp [h], by simp [decodeFields, h]⟩
  | cons s o rest =>
    simp only [decodeFields] at h
    split at h
    · rename_i hos
      cases h1 : decodeFields ok f d rest false b with
      | none => simp [h1] at h
      | some q =>
        obtain ⟨vs1, r1⟩ := q
        simp [h1] at h
        obtain ⟨p1, hp1, hd1⟩ := iF d rest false b vs1 r1 h1
        refine ⟨p1, by rw [hp1, h.2], ?_⟩
        simp only [decodeFields]; rw [if_pos hos]; simp [hd1, h.1]
    · rename_i hos
      cases h1 : decodeS ok f d s b with
      | none => simp [h1] at h
      | some q =>
        obtain ⟨v1, r1⟩ := q
        simp only [h1] at h
        cases h2 : decodeFields ok f d rest skip r1 with
        | none => simp [h2] at h
        | some q2 =>
          obtain ⟨vs2, r2⟩ := q2
          simp [h2] at h
          obtain ⟨p1, hp1, hd1⟩ := iS d s b v1 r1 h1
          obtain ⟨p2, hp2, hd2⟩ := iF d rest skip r1 vs2 r2 h2
          refine ⟨p1 ++ p2, by rw [hp1, hp2, h.2]; simp, ?_⟩
          simp only [decodeFields]; rw [if_neg hos]
          simp [app0 p2 hd1, hd2, h.1]
  | hdr rest =>
    simp only [decodeFields] at h
    cases h1 : decodeS ok f maxDepth .bytes b with
    | none => simp [h1] at h
    | some q =>
      obtain ⟨v1, r1⟩ := q
      simp only [h1] at h
      obtain ⟨p1, hp1, hd1⟩ := iS maxDepth .bytes b v1 r1 h1
      cases v1 <;> try (simp at h; done)
      rename_i pb
      simp only at h
      split at h
      · simp at h
      · rename_i pm hpm
        cases h2 : decodeHdrMap f maxDepth r1 with
        | none => simp [h2] at h
        | some q2 =>
          obtain ⟨um, r2⟩ := q2
          simp only [h2] at h
          cases h3 : decodeFields ok f d rest skip r2 with
          | none => simp [h3] at h
          | some q3 =>
            obtain ⟨vs3, r3⟩ := q3
            simp [h3] at h
            obtain ⟨p2, hp2, hd2⟩ := iH maxDepth r1 um r2 h2
            obtain ⟨p3, hp3, hd3⟩ := iF d rest skip r2 vs3 r3 h3
            refine ⟨p1 ++ (p2 ++ p3), by rw [hp1, hp2, hp3, h.2]; simp, ?_⟩
            have a2 := (appAll ok f).2.2.2.2.1 maxDepth p2 p3 um [] hd2
            simp at a2
            simp only [decodeFields, app0 (p2 ++ p3) hd1, hpm, a2, hd3]
            simp [h.1]

theorem split_S_step (ok : CertOracle) (f : Nat) (ih : SplitAll ok f) :
    ∀ d s b v r, decodeS ok (f + 1) d s b = some (v, r) → ∃ p, b = p ++ r ∧ decodeS ok (f + 1) d s p = some (v, []) := by
  obtain ⟨iS, iE, iF, iM, iH, iP⟩ := ih
  intro d s b v r h
  cases s with
  | uint max =>
    simp only [decodeS] at h
    cases hd : decHead b with
    | none => simp [hd] at h
    | some q =>
      obtain ⟨mt, ai, arg, r0⟩ := q
      obtain ⟨hb, hbe, hbl, hbd⟩ := decHead_split b hd
      have hb0 := hbd []; simp at hb0
      simp only [hd] at h
      repeat' (split at h)
      all_goals first
        | (simp at h; done)
        | (simp at h; exact ⟨hb, by rw [hbe, h.2], by simp only [decodeS, hb0]; simp_all⟩)
  | int bits =>
    simp only [decodeS] at h
    cases hd : decHead b with
    | none => simp [hd] at h
    | some q =>
      obtain ⟨mt, ai, arg, r0⟩ := q
      obtain ⟨hb, hbe, hbl, hbd⟩ := decHead_split b hd
      have hb0 := hbd []; simp at hb0
      simp only [hd] at h
      repeat' (split at h)
      all_goals first
        | (simp at h; done)
        | (simp at h; exact ⟨hb, by rw [hbe, h.2], by simp only [decodeS, hb0]; simp_all⟩)
  | bool =>
    simp only [decodeS] at h
    cases hd : decHead b with
    | none => simp [hd] at h
    | some q =>
      obtain ⟨mt, ai, arg, r0⟩ := q
      obtain ⟨hb, hbe, hbl, hbd⟩ := decHead_split b hd
      have hb0 := hbd []; simp at hb0
      simp only [hd] at h
      repeat' (split at h)
      all_goals first
        | (simp at h; done)
        | (simp at h; exact ⟨hb, by rw [hbe, h.2], by simp only [decodeS, hb0]; simp_all⟩)
  | text =>
    simp only [decodeS] at h
    cases hd : decHead b with
    | none => simp [hd] at h
    | some q =>
      obtain ⟨mt, ai, arg, r0⟩ := q
      obtain ⟨hb, hbe, hbl, hbd⟩ := decHead_split b hd
      have hb0 := hbd []; simp at hb0
      simp only [hd] at h
      by_cases m : mt = 2 ∨ mt = 3
      · simp only [m, if_true] at h
        split at h
        · simp at h
        · rename_i hc
          simp at h
          have hl : arg ≤ r0.length := by omega
          refine ⟨hb ++ r0.take arg, by rw [hbe, ← h.2]; simp, ?_⟩
          simp only [decodeS, hbd (r0.take arg)]
          have : ¬ (arg ≥ maxLen ∨ (r0.take arg).length < arg) := by simp; omega
          simp only [m, if_true]
          rw [if_neg this]
          simp [h.1, List.take_take, List.drop_eq_nil_of_le, hl]
      · simp [m] at h
  | bytes =>
    simp only [decodeS] at h
    cases hd : decHead b with
    | none => simp [hd] at h
    | some q =>
      obtain ⟨mt, ai, arg, r0⟩ := q
      obtain ⟨hb, hbe, hbl, hbd⟩ := decHead_split b hd
      have hb0 := hbd []; simp at hb0
      simp only [hd] at h
      by_cases m : mt = 2 ∨ mt = 3
      · simp only [m, if_true] at h
        split at h
        · simp at h
        · rename_i hc
          simp at h
          have hl : arg ≤ r0.length := by omega
          refine ⟨hb ++ r0.take arg, by rw [hbe, ← h.2]; simp, ?_⟩
          simp only [decodeS, hbd (r0.take arg)]
          have : ¬ (arg ≥ maxLen ∨ (r0.take arg).length < arg) := by simp; omega
          simp only [m, if_true]
          rw [if_neg this]
          simp [h.1, List.take_take, List.drop_eq_nil_of_le, hl]
      · simp only [m, if_false] at h
        by_cases m4 : mt = 4
        · simp only [m4, if_true] at h
          split at h
          · simp at h
          · rename_i hc
            cases hi : decodeElems ok f (d - 1) (.uint 255) arg r0 with
            | none => simp [hi] at h
            | some q =>
              obtain ⟨xs, r1⟩ := q
              simp [hi] at h
              obtain ⟨q, hq, hq2⟩ := iE _ _ _ _ _ _ hi
              refine ⟨hb ++ q, by rw [hbe, hq, h.2]; simp, ?_⟩
              simp only [decodeS, hbd q]
              simp [*]
              all_goals omega
        · simp only [m4, if_false] at h
          split at h
          · rename_i hc; simp at h
            exact ⟨hb, by rw [hbe, h.2], by simp only [decodeS, hb0]; simp [m, m4, hc, h.1]⟩
          · simp at h
  | fixed n =>
    simp only [decodeS] at h
    cases hd : decHead b with
    | none => simp [hd] at h
    | some q =>
      obtain ⟨mt, ai, arg, r0⟩ := q
      obtain ⟨hb, hbe, hbl, hbd⟩ := decHead_split b hd
      have hb0 := hbd []; simp at hb0
      simp only [hd] at h
      by_cases m : mt = 2 ∨ mt = 3
      · simp only [m, if_true] at h
        split at h
        · simp at h
        · rename_i hc
          simp at h
          have hl : arg ≤ r0.length := by omega
          refine ⟨hb ++ r0.take arg, by rw [hbe, ← h.2]; simp, ?_⟩
          simp only [decodeS, hbd (r0.take arg)]
          have : ¬ (arg ≥ maxLen ∨ (r0.take arg).length < arg ∨ arg > n) := by simp; omega
          simp only [m, if_true]
          rw [if_neg this]
          simp [h.1, List.take_take, List.drop_eq_nil_of_le, hl]
      · simp only [m, if_false] at h
        by_cases m4 : mt = 4
        · simp only [m4, if_true] at h
          split at h
          · simp at h
          · rename_i hc
            cases hi : decodeElems ok f (d - 1) (.uint 255) arg r0 with
            | none => simp [hi] at h
            | some q =>
              obtain ⟨xs, r1⟩ := q
              simp [hi] at h
              obtain ⟨q, hq, hq2⟩ := iE _ _ _ _ _ _ hi
              refine ⟨hb ++ q, by rw [hbe, hq, h.2]; simp, ?_⟩
              simp only [decodeS, hbd q]
              simp [*]
              all_goals omega
        · simp [m4] at h
  | slice e =>
    simp only [decodeS] at h
    cases hd : decHead b with
    | none => simp [hd] at h
    | some q =>
      obtain ⟨mt, ai, arg, r0⟩ := q
      obtain ⟨hb, hbe, hbl, hbd⟩ := decHead_split b hd
      have hb0 := hbd []; simp at hb0
      simp only [hd] at h
      by_cases m4 : mt = 4
      · simp only [m4, if_true] at h
        split at h
        · simp at h
        · rename_i hc
          cases hi : decodeElems ok f (d - 1) e arg r0 with
          | none => simp [hi] at h
          | some q =>
            obtain ⟨xs, r1⟩ := q
            simp [hi] at h
            obtain ⟨q, hq, hq2⟩ := iE _ _ _ _ _ _ hi
            refine ⟨hb ++ q, by rw [hbe, hq, h.2]; simp, ?_⟩
            simp only [decodeS, hbd q]
            simp [*]
            all_goals omega
      · simp only [m4, if_false] at h
        split at h
        · rename_i hc; simp at h
          exact ⟨hb, by rw [hbe, h.2], by simp only [decodeS, hb0]; simp [m4, hc, h.1]⟩
        · simp at h
  | struct fs =>
    simp only [decodeS] at h
    cases hd : decHead b with
    | none => simp [hd] at h
    | some q =>
      obtain ⟨mt, ai, arg, r0⟩ := q
      obtain ⟨hb, hbe, hbl, hbd⟩ := decHead_split b hd
      have hb0 := hbd []; simp at hb0
      simp only [hd] at h
      by_cases m4 : mt = 4
      · simp only [m4, if_true] at h
        split at h
        · simp at h
        · rename_i hc
          split at h
          · rename_i hs
            cases hi : decodeFields ok f (d - 1) fs false r0 with
            | none => simp [hi] at h
            | some q =>
              obtain ⟨xs, r1⟩ := q
              simp [hi] at h
              obtain ⟨q, hq, hq2⟩ := iF _ _ _ _ _ _ hi
              refine ⟨hb ++ q, by rw [hbe, hq, h.2]; simp, ?_⟩
              simp only [decodeS, hbd q]
              simp [*]
              all_goals omega
          · rename_i hs
            split at h
            · rename_i ho
              cases hi : decodeFields ok f (d - 1) fs true r0 with
              | none => simp [hi] at h
              | some q =>
                obtain ⟨xs, r1⟩ := q
                simp [hi] at h
                obtain ⟨q, hq, hq2⟩ := iF _ _ _ _ _ _ hi
                refine ⟨hb ++ q, by rw [hbe, hq, h.2]; simp, ?_⟩
                simp only [decodeS, hbd q]
                simp [*]
                all_goals omega
            · simp at h
      · simp only [m4, if_false] at h
        split at h
        · rename_i hc
          cases hn : isNullHead b with
          | none => simp [hn] at h
          | some rn =>
            simp [hn] at h
            obtain ⟨p, hp, hp2⟩ := isNullHead_split hn
            refine ⟨p, by rw [hp, h.2], ?_⟩
            -- p is one byte: its head is the head of b
            have hdp : decHead p = some (mt, ai, arg, []) := by
              rw [isNullHead_first] at hn hp2
              cases b with
              | nil => simp at hn
              | cons x xs =>
                cases p with
                | nil => simp at hp2
                | cons y ys =>
                  simp only at hn hp2
                  split at hn
                  · rename_i c1
                    simp at hn
                    split at hp2
                    · simp at hp2; subst hp2
                      simp at hp
                      obtain ⟨e1, e2⟩ := hp
                      subst e1
                      have hx : x.toNat < 256 := UInt8.toNat_lt x
                      have h24 : x.toNat % 32 < 24 := by omega
                      simp [decHead, h24] at hd ⊢
                      omega
                    · simp at hp2
                  · simp at hn
            simp only [decodeS, hdp]
            simp [m4, hc, hp2, h.1]
        · simp at h
  | ptr e =>
    simp only [decodeS] at h
    cases hn : isNullHead b with
    | some rn =>
      simp [hn] at h
      obtain ⟨p, hp, hp2⟩ := isNullHead_split hn
      exact ⟨p, by rw [hp, h.2], by simp only [decodeS, hp2]; simp [h.1]⟩
    | none =>
      simp only [hn] at h
      cases hi : decodeS ok f d e b with
      | none => simp [hi] at h
      | some q =>
        obtain ⟨v1, r1⟩ := q
        simp [hi] at h
        obtain ⟨p, hp, hp2⟩ := iS _ _ _ _ _ hi
        refine ⟨p, by rw [hp, h.2], ?_⟩
        have hpn : isNullHead p = none := by
          cases hq : isNullHead p with
          | none => rfl
          | some rq =>
            have := isNullHead_append r1 hq
            rw [← hp, hn] at this; simp at this
        simp only [decodeS, hpn, hp2]
        simp [h.1]
  | any =>
    simp only [decodeS] at h
    cases hi : decodeAny f d b with
    | none => simp [hi] at h
    | some q =>
      obtain ⟨a, r1⟩ := q
      simp [hi] at h
      obtain ⟨p, hp, hp2⟩ := decodeAny_split f d b a r1 hi
      exact ⟨p, by rw [hp, h.2], by simp only [decodeS, hp2]; simp [h.1]⟩
  | mapOf ks vs =>
    simp only [decodeS] at h
    cases hd : decHead b with
    | none => simp [hd] at h
    | some q =>
      obtain ⟨mt, ai, arg, r0⟩ := q
      obtain ⟨hb, hbe, hbl, hbd⟩ := decHead_split b hd
      have hb0 := hbd []; simp at hb0
      simp only [hd] at h
      by_cases m5 : mt = 5
      · simp only [m5, if_true] at h
        split at h
        · simp at h
        · rename_i hc
          cases hi : decodeMapPairs ok f (d - 1) ks vs arg [] r0 with
          | none => simp [hi] at h
          | some q =>
            obtain ⟨xs, r1⟩ := q
            simp [hi] at h
            obtain ⟨q, hq, hq2⟩ := iM _ _ _ _ _ _ _ _ hi
            refine ⟨hb ++ q, by rw [hbe, hq, h.2]; simp, ?_⟩
            simp only [decodeS, hbd q]
            simp [*]
            all_goals omega
      · simp [m5] at h
  | tagAny e =>
    simp only [decodeS] at h
    cases hd : decHead b with
    | none => simp [hd] at h
    | some q =>
      obtain ⟨mt, ai, arg, r0⟩ := q
      obtain ⟨hb, hbe, hbl, hbd⟩ := decHead_split b hd
      have hb0 := hbd []; simp at hb0
      simp only [hd] at h
      by_cases m6 : mt = 6
      · simp only [m6, if_true] at h
        cases hi : decodeS ok f maxDepth e r0 with
        | none => simp [hi] at h
        | some q =>
          obtain ⟨x, r1⟩ := q
          simp [hi] at h
          obtain ⟨q, hq, hq2⟩ := iS _ _ _ _ _ hi
          refine ⟨hb ++ q, by rw [hbe, hq, h.2]; simp, ?_⟩
          simp only [decodeS, hbd q]
          simp [m6, hq2, h.1]
      · simp [m6] at h
  | tagNum n e =>
    simp only [decodeS] at h
    cases hi : decode f d b with
    | none => simp [hi] at h
    | some q =>
      obtain ⟨x, rr⟩ := q
      simp only [hi] at h
      obtain ⟨p, hp, _, hp2⟩ := decode_split f d b x rr hi
      have e1 : b.take (b.length - rr.length) = p := by rw [hp]; exact take_all_consumed p rr
      rw [e1] at h
      have e2 : p.take (p.length - ([] : Bytes).length) = p := by simp
      repeat' (split at h)
      all_goals first
        | (simp at h; done)
        | (simp at h; obtain ⟨h1, h2⟩ := h; (try obtain ⟨h2, h3⟩ := h2); subst_vars
           exact ⟨p, by first | rfl | assumption | simp_all, by simp only [decodeS, hp2, e2]; simp_all⟩)
  | bstr e =>
    simp only [decodeS] at h
    cases hu : unwrapBytes b with
    | none => simp [hu] at h
    | some o =>
      cases o with
      | none =>
        simp only [hu] at h
        cases hn : isNullHead b with
        | none => simp [hn] at h
        | some rn =>
          simp [hn] at h
          obtain ⟨p, hp, hpu, hpn⟩ := unwrapBytes_null_split hu rn hn
          exact ⟨p, by rw [hp, h.2], by simp only [decodeS, hpu, hpn]; simp [h.1]⟩
      | some pr =>
        obtain ⟨n, r0⟩ := pr
        simp only [hu] at h
        obtain ⟨hb, hbe, hbl, hbd⟩ := unwrapBytes_split hu
        split at h
        · simp at h
        · rename_i hc
          have hl : n ≤ r0.length := by omega
          cases hi : decodeS ok f maxDepth e (r0.take n) with
          | none => simp [hi] at h
          | some q =>
            obtain ⟨x, rx⟩ := q
            simp only [hi] at h
            cases rx with
            | cons _ _ => simp at h
            | nil =>
              simp at h
              refine ⟨hb ++ r0.take n, by rw [hbe, ← h.2]; simp, ?_⟩
              simp only [decodeS, hbd (r0.take n)]
              have : ¬ ((r0.take n).length < n) := by simp; omega
              rw [if_neg this]
              simp [List.take_take, hi, h.1, List.drop_eq_nil_of_le, hl]
  | wrap e =>
    simp only [decodeS] at h
    cases hu : unwrapBytes b with
    | none => simp [hu] at h
    | some o =>
      cases o with
      | none =>
        simp only [hu] at h
        cases hn : isNullHead b with
        | none => simp [hn] at h
        | some rn =>
          simp [hn] at h
          obtain ⟨p, hp, hpu, hpn⟩ := unwrapBytes_null_split hu rn hn
          exact ⟨p, by rw [hp, h.2], by simp only [decodeS, hpu, hpn]; simp [h.1]⟩
      | some pr =>
        obtain ⟨n, r0⟩ := pr
        simp only [hu] at h
        obtain ⟨hb, hbe, hbl, hbd⟩ := unwrapBytes_split hu
        split at h
        · simp at h
        · rename_i hc
          have hl : n ≤ r0.length := by omega
          cases hi : decodeS ok f maxDepth e (r0.take n) with
          | none => simp [hi] at h
          | some q =>
            obtain ⟨x, rx⟩ := q
            simp only [hi] at h
            cases rx with
            | cons _ _ => simp at h
            | nil =>
              simp at h
              refine ⟨hb ++ r0.take n, by rw [hbe, ← h.2]; simp, ?_⟩
              simp only [decodeS, hbd (r0.take n)]
              have : ¬ ((r0.take n).length < n) := by simp; omega
              rw [if_neg this]
              simp [List.take_take, hi, h.1, List.drop_eq_nil_of_le, hl]
  | wrapBytes =>
    simp only [decodeS] at h
    cases hu : unwrapBytes b with
    | none => simp [hu] at h
    | some o =>
      cases o with
      | none =>
        simp only [hu] at h
        cases hn : isNullHead b with
        | none => simp [hn] at h
        | some rn =>
          simp [hn] at h
          obtain ⟨p, hp, hpu, hpn⟩ := unwrapBytes_null_split hu rn hn
          exact ⟨p, by rw [hp, h.2], by simp only [decodeS, hpu, hpn]; simp [h.1]⟩
      | some pr =>
        obtain ⟨n, r0⟩ := pr
        simp only [hu] at h
        obtain ⟨hb, hbe, hbl, hbd⟩ := unwrapBytes_split hu
        split at h
        · simp at h
        · rename_i hc
          have hl : n ≤ r0.length := by omega
          simp at h
          refine ⟨hb ++ r0.take n, by rw [hbe, ← h.2]; simp, ?_⟩
          simp only [decodeS, hbd (r0.take n)]
          have : ¬ ((r0.take n).length < n) := by simp; omega
          rw [if_neg this]
          simp [List.take_take, h.1, List.drop_eq_nil_of_le, hl]
  | raw =>
    simp only [decodeS] at h
    cases hi : decode f d b with
    | none => simp [hi] at h
    | some q =>
      obtain ⟨x, rr⟩ := q
      simp [hi] at h
      obtain ⟨p, hp, _, hp2⟩ := decode_split f d b x rr hi
      have e1 : b.take (b.length - rr.length) = p := by rw [hp]; exact take_all_consumed p rr
      rw [e1] at h
      exact ⟨p, by rw [hp, h.2], by simp only [decodeS, hp2]; simp [h.1]⟩
  | viaRaw e =>
    simp only [decodeS] at h
    cases hi : decode f d b with
    | none => simp [hi] at h
    | some q =>
      obtain ⟨x, rr⟩ := q
      simp only [hi] at h
      obtain ⟨p, hp, _, hp2⟩ := decode_split f d b x rr hi
      have e1 : b.take (b.length - rr.length) = p := by rw [hp]; exact take_all_consumed p rr
      rw [e1] at h
      have e2 : p.take (p.length - ([] : Bytes).length) = p := by simp
      repeat' (split at h)
      all_goals first
        | (simp at h; done)
        | (simp at h; obtain ⟨h1, h2⟩ := h; (try obtain ⟨h2, h3⟩ := h2); subst_vars
           exact ⟨p, by first | rfl | assumption | simp_all, by simp only [decodeS, hp2, e2]; simp_all⟩)
  | label =>
    simp only [decodeS] at h
    cases hi : decode f d b with
    | none => simp [hi] at h
    | some q =>
      obtain ⟨x, rr⟩ := q
      simp only [hi] at h
      obtain ⟨p, hp, _, hp2⟩ := decode_split f d b x rr hi
      have e1 : b.take (b.length - rr.length) = p := by rw [hp]; exact take_all_consumed p rr
      rw [e1] at h
      have e2 : p.take (p.length - ([] : Bytes).length) = p := by simp
      repeat' (split at h)
      all_goals first
        | (simp at h; done)
        | (simp at h; obtain ⟨h1, h2⟩ := h; (try obtain ⟨h2, h3⟩ := h2); subst_vars
           exact ⟨p, by first | rfl | assumption | simp_all, by simp only [decodeS, hp2, e2]; simp_all⟩)
  | cert =>
    simp only [decodeS] at h
    cases hu : unwrapBytes b with
    | none => simp [hu] at h
    | some o =>
      cases o with
      | none =>
        simp only [hu] at h
        cases hn : isNullHead b with
        | none => simp [hn] at h
        | some rn =>
          simp [hn] at h
          obtain ⟨p, hp, hpu, hpn⟩ := unwrapBytes_null_split hu rn hn
          exact ⟨p, by rw [hp, h.2], by simp only [decodeS, hpu, hpn]; simp [h.1]⟩
      | some pr =>
        obtain ⟨n, r0⟩ := pr
        simp only [hu] at h
        obtain ⟨hb, hbe, hbl, hbd⟩ := unwrapBytes_split hu
        split at h
        · simp at h
        · rename_i hc
          have hl : n ≤ r0.length := by omega
          split at h
          · rename_i hok
            simp at h
            refine ⟨hb ++ r0.take n, by rw [hbe, ← h.2]; simp, ?_⟩
            simp only [decodeS, hbd (r0.take n)]
            have : ¬ ((r0.take n).length < n) := by simp; omega
            rw [if_neg this]
            simp [List.take_take, hok, h.1, List.drop_eq_nil_of_le, hl]
          · simp at h
  | timestamp =>
    simp only [decodeS] at h
    cases hd : decHead b with
    | none => simp [hd] at h
    | some q =>
      obtain ⟨mt, ai, arg, r0⟩ := q
      obtain ⟨hb, hbe, hbl, hbd⟩ := decHead_split b hd
      have hb0 := hbd []; simp at hb0
      simp only [hd] at h
      split at h
      · rename_i hc; simp at h
        exact ⟨hb, by rw [hbe, h.2], by simp only [decodeS, hb0]; simp [hc, h.1]⟩
      · rename_i hc
        by_cases m6 : mt = 6
        · simp only [m6, if_true] at h
          by_cases hn : (if ai ≥ 28 then ai else arg) = 1
          · simp only [hn, if_true] at h
            cases hi : decodeS ok f maxDepth (.int 64) r0 with
            | none => simp [hi] at h
            | some q =>
              obtain ⟨vi, ri⟩ := q
              simp only [hi] at h
              obtain ⟨q, hq, hq2⟩ := iS _ _ _ _ _ hi
              cases vi <;> simp at h
              refine ⟨hb ++ q, by rw [hbe, hq, h.2]; simp, ?_⟩
              simp only [decodeS, hbd q]
              simp [hc, m6, hn, hq2, h.1]
          · simp [hn] at h
        · simp [m6] at h
  | chunk =>
    simp only [decodeS] at h
    cases hi : decode f d b with
    | none => simp [hi] at h
    | some q =>
      obtain ⟨x, rr⟩ := q
      simp only [hi] at h
      obtain ⟨p, hp, _, hp2⟩ := decode_split f d b x rr hi
      have e1 : b.take (b.length - rr.length) = p := by rw [hp]; exact take_all_consumed p rr
      rw [e1] at h
      have e2 : p.take (p.length - ([] : Bytes).length) = p := by simp
      repeat' (split at h)
      all_goals first
        | (simp at h; done)
        | (simp at h; obtain ⟨h1, h2⟩ := h; (try obtain ⟨h2, h3⟩ := h2); subst_vars
           exact ⟨p, by first | rfl | assumption | simp_all, by simp only [decodeS, hp2, e2]; simp_all⟩)
  | coseKey =>
    simp only [decodeS] at h
    cases hi : decode f d b with
    | none => simp [hi] at h
    | some q =>
      obtain ⟨x, rr⟩ := q
      simp only [hi] at h
      obtain ⟨p, hp, _, hp2⟩ := decode_split f d b x rr hi
      have e1 : b.take (b.length - rr.length) = p := by rw [hp]; exact take_all_consumed p rr
      rw [e1] at h
      have e2 : p.take (p.length - ([] : Bytes).length) = p := by simp
      repeat' (split at h)
      all_goals first
        | (simp at h; done)
        | (simp at h; obtain ⟨h1, h2⟩ := h; (try obtain ⟨h2, h3⟩ := h2); subst_vars
           exact ⟨p, by first | rfl | assumption | simp_all, by simp only [decodeS, hp2, e2]; simp_all⟩)

theorem splitAll (ok : CertOracle) (f : Nat) : SplitAll ok f := by
  induction f with
  | zero => exact splitAll_zero ok
  | succ f ih =>
    exact ⟨split_S_step ok f ih, split_elems_step ok f ih, split_fields_step ok f ih, split_mapPairs_step ok f ih,
      split_hdrMap_step ok f ih, split_hdrPairs_step ok f ih⟩

/-- **The consumed prefix alone decodes to the same value**, for every decode target. -/
theorem decodeS_split (ok : CertOracle) (f d : Nat) (s : Schema) (b : Bytes) (v : Val) (r : Bytes)
    (h : decodeS ok f d s b = some (v, r)) : ∃ p, b = p ++ r ∧ decodeS ok f d s p = some (v, []) :=
  (splitAll ok f).1 d s b v r h

end Fdo.Cbor
