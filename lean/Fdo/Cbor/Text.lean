import Fdo.Cbor.Any
/-
Line-protocol text form of items and Go values (prefix notation with counts, so the
parser is a fuelled recursive descent over a token list).  Driver glue, no theorems.
-/
namespace Fdo.Cbor
open Fdo

mutual
def Item.render : Item → List String
  | .uint n => ["u", toString n]
  | .nint n => ["n", toString n]
  | .bstr b => ["b", hexOrDash b]
  | .tstr b => ["t", hexOrDash b]
  | .arr xs => ["a", toString xs.length] ++ Items.render xs
  | .map ps => ["m", toString ps.length] ++ Pairs.render ps
  | .tag t x => ["g", toString t] ++ Item.render x
  | .simple v => ["s", toString v]
  | .m7 ai arg => ["f", toString ai, toString arg]
def Items.render : Items → List String
  | .nil => []
  | .cons x xs => Item.render x ++ Items.render xs
def Pairs.render : Pairs → List String
  | .nil => []
  | .cons k v ps => Item.render k ++ Item.render v ++ Pairs.render ps
end

def Item.text (x : Item) : String := " ".intercalate x.render

mutual
def parseItem : Nat → List String → Option (Item × List String)
  | 0, _ => none
  | f+1, toks =>
    match toks with
    | "u" :: n :: r => n.toNat?.map fun n => (.uint n, r)
    | "n" :: n :: r => n.toNat?.map fun n => (.nint n, r)
    | "b" :: h :: r => (ofHex h).map fun b => (.bstr b, r)
    | "t" :: h :: r => (ofHex h).map fun b => (.tstr b, r)
    | "s" :: n :: r => n.toNat?.map fun n => (.simple n, r)
    | "f" :: a :: n :: r => do
        let a ← a.toNat?
        let n ← n.toNat?
        pure (.m7 a n, r)
    | "g" :: n :: r => do
        let n ← n.toNat?
        let (x, r') ← parseItem f r
        pure (.tag n x, r')
    | "a" :: n :: r => do
        let n ← n.toNat?
        let (xs, r') ← parseItems f n r
        pure (.arr xs, r')
    | "m" :: n :: r => do
        let n ← n.toNat?
        let (ps, r') ← parsePairs f n r
        pure (.map ps, r')
    | _ => none
def parseItems : Nat → Nat → List String → Option (Items × List String)
  | _, 0, toks => some (.nil, toks)
  | 0, _+1, _ => none
  | f+1, n+1, toks => do
    let (x, r) ← parseItem f toks
    let (xs, r') ← parseItems f n r
    pure (.cons x xs, r')
def parsePairs : Nat → Nat → List String → Option (Pairs × List String)
  | _, 0, toks => some (.nil, toks)
  | 0, _+1, _ => none
  | f+1, n+1, toks => do
    let (k, r) ← parseItem f toks
    let (v, r') ← parseItem f r
    let (ps, r'') ← parsePairs f n r'
    pure (.cons k v ps, r'')
end

def Item.ofTokens (toks : List String) : Option Item :=
  match parseItem (toks.length + 1) toks with
  | some (x, []) => some x
  | _ => none

partial def AnyVal.render : AnyVal → String
  | .int i => s!"i {i}"
  | .bytes b => s!"b {hexOrDash b}"
  | .text b => s!"t {hexOrDash b}"
  | .arr xs => " ".intercalate (s!"a {xs.length}" :: xs.map AnyVal.render)
  | .map ps =>
    let es := ps.map fun (k, v) => (k.render, v.render)
    let es := es.toArray.qsort (fun a b => a.1 < b.1) |>.toList
    " ".intercalate (s!"m {ps.length}" :: es.map fun (k, v) => k ++ " " ++ v)
  | .tagRaw t raw => s!"g {t} {hexOrDash raw}"
  | .bool true => "T"
  | .bool false => "F"
  | .null => "z"

end Fdo.Cbor
