import Fdo.Cbor.TypedFrag
import Fdo.Cbor.Proofs
import Fdo.Cbor.Fuel
import Fdo.Cbor.HdrProofs
import Fdo.Cbor.AnyProofs
/-
decode ∘ encode = id for the typed codec on the fragment of `TypedFrag.lean`.
-/
namespace Fdo.Cbor
open Fdo

theorem decHead_encHead28 (mt n : Nat) (r : Bytes) (hmt : mt < 8) (hn : n < 18446744073709551616) :
    ∃ ai, decHead (encHead mt n ++ r) = some (mt, ai, n, r) ∧ ai < 28 := by
  unfold encHead
  split
  · refine ⟨n, ?_, by omega⟩
    have hb : (UInt8.ofNat (mt * 32 + n)).toNat = mt * 32 + n := toNat_ofNat_lt _ (by omega)
    have h1 : (mt * 32 + n) / 32 = mt := by omega
    have h2 : (mt * 32 + n) % 32 = n := by omega
    simp only [List.cons_append, List.nil_append, decHead, hb, h1, h2]
    rw [if_pos (by omega)]
  · split
    · exact ⟨24, decHead_wide mt 24 1 n r hmt (by omega) (by omega) rfl (by simpa using ‹n < 256›), by omega⟩
    · split
      · exact ⟨25, decHead_wide mt 25 2 n r hmt (by omega) (by omega) rfl (by simpa using ‹n < 65536›), by omega⟩
      · split
        · exact ⟨26, decHead_wide mt 26 4 n r hmt (by omega) (by omega) rfl (by simpa using ‹n < 4294967296›), by omega⟩
        · exact ⟨27, decHead_wide mt 27 8 n r hmt (by omega) (by omega) rfl (by simpa using hn), by omega⟩

theorem encHead_length_pos (mt n : Nat) : 1 ≤ (encHead mt n).length := by
  unfold encHead; split <;> (try split) <;> (try split) <;> (try split) <;> simp



/-- an int64 written the way `encodeS` writes integers is read back by the typed decoder -/
theorem decodeS_int64 (ok : CertOracle) (i : Int) (r : Bytes) (f d : Nat)
    (hi : -9223372036854775808 ≤ i ∧ i ≤ 9223372036854775807) :
    decodeS ok (f + 1) d (.int 64) ((if i ≥ 0 then encHead 0 i.toNat else encHead 1 (-1 - i).toNat) ++ r) = some (.int i, r) := by
  by_cases h0 : i ≥ 0
  · obtain ⟨ai, hd, _⟩ := decHead_encHead28 0 i.toNat r (by omega) (by omega)
    simp only [h0, if_true, decodeS, hd]
    have h1 : i.toNat < 2 ^ (64 - 1) := by omega
    simp [h1]; omega
  · obtain ⟨ai, hd, _⟩ := decHead_encHead28 1 (-1 - i).toNat r (by omega) (by omega)
    simp only [h0, if_false, decodeS, hd]
    have h1 : (-1 - i).toNat < 2 ^ (64 - 1) := by omega
    simp [h1]; omega

theorem encHead_first (mt n : Nat) : ∃ k t, k < 28 ∧ encHead mt n = UInt8.ofNat (mt * 32 + k) :: t := by
  unfold encHead
  split
  · exact ⟨n, [], by omega, rfl⟩
  · split
    · exact ⟨24, _, by omega, rfl⟩
    · split
      · exact ⟨25, _, by omega, rfl⟩
      · split
        · exact ⟨26, _, by omega, rfl⟩
        · exact ⟨27, _, by omega, rfl⟩

theorem decHead_mt (x : UInt8) (t : Bytes) {mt ai arg : Nat} {r : Bytes} (h : decHead (x :: t) = some (mt, ai, arg, r)) :
    mt = x.toNat / 32 ∧ ai = x.toNat % 32 := by
  simp only [decHead] at h
  split at h
  · simp at h; exact ⟨h.1.symm, h.2.1.symm⟩
  · split at h
    · simp at h
    · split at h
      · simp at h
      · simp at h; exact ⟨h.1.symm, h.2.1.symm⟩

/-- bytes that start with a head of major type 0..6 are not null/undefined -/
theorem isNullHead_encHead (mt n : Nat) (rest : Bytes) (hmt : mt < 7) : isNullHead (encHead mt n ++ rest) = none := by
  obtain ⟨k, t, hk, he⟩ := encHead_first mt n
  rw [he]
  unfold isNullHead
  cases hd : decHead (UInt8.ofNat (mt * 32 + k) :: t ++ rest) with
  | none => rfl
  | some q =>
    obtain ⟨mt', ai, arg, r'⟩ := q
    have := (decHead_mt _ _ hd).1
    have hb : (UInt8.ofNat (mt * 32 + k)).toNat = mt * 32 + k := toNat_ofNat_lt _ (by omega)
    rw [hb] at this
    have : mt' = mt := by omega
    simp only
    rw [if_neg (by omega)]


/-! ### Go maps (`map[K]V`) -/

/-- concatenation of encoded pairs in the order given -/
def flatM (es : List (Bytes × Bytes)) : Bytes := (es.map fun p => p.1 ++ p.2).flatten

theorem keyEq_eq (k1 k2 : Val) (h : k1.keyEq k2 = true) : k1 = k2 := by
  cases k1 <;> cases k2 <;> simp [Val.keyEq] at h <;> simp [h]

/-- no map key of the fragment is an `interface{}` value -/
theorem conf_key_not_any (ok : CertOracle) (g d : Nat) (ks : Schema) (a : AnyVal) (hk : ks.scalarKey = true) :
    conf ok g d ks (.any a) = false := by
  cases g with
  | zero => simp [conf]
  | succ g => cases ks <;> simp [Schema.scalarKey] at hk <;> simp [conf, labelOK]

/-- scalar keys encode the same with any fuel -/
theorem encodeS_scalarKey (g : Nat) (ks : Schema) (k : Val) (h : ks.scalarKey = true) : encodeS (g + 1) ks k = encodeS 1 ks k := by
  cases ks <;> simp [Schema.scalarKey] at h <;> cases k <;> simp [encodeS]

/-- sorted keys: the encoded pairs are already in the order `sortByKey` produces, and no two keys are `==` -/
theorem sorted_facts (ks vs : Schema) (hk : ks.scalarKey = true) : ∀ (g : Nat) (ps : List (Val × Val)) (es : List (Bytes × Bytes)),
    encodeMapPairs g ks vs ps = some es → mapSortedB ks ps = true →
    es.Pairwise (fun a b => (!bytesLt b.1 a.1) = true) ∧ ps.Pairwise (fun a b => a.1.keyEq b.1 = false) ∧
    ∀ e ∈ es, ∃ q ∈ ps, encodeS 1 ks q.1 = some e.1 := by
  intro g
  induction g with
  | zero => intro ps es h; simp [encodeMapPairs] at h
  | succ g ih =>
    intro ps es h hsrt
    cases ps with
    | nil => simp [encodeMapPairs] at h; subst h; exact ⟨List.Pairwise.nil, List.Pairwise.nil, by simp⟩
    | cons kv ps =>
      obtain ⟨k, v⟩ := kv
      simp only [encodeMapPairs] at h
      cases h1 : encodeS g ks k with
      | none => simp [h1] at h
      | some a =>
        cases h2 : encodeS g vs v with
        | none => simp [h1, h2] at h
        | some b =>
          cases h3 : encodeMapPairs g ks vs ps with
          | none => simp [h1, h2, h3] at h
          | some es' =>
            simp [h1, h2, h3] at h; subst h
            have h1' : encodeS 1 ks k = some a := by
              cases g with
              | zero => simp [encodeS] at h1
              | succ g0 => rw [← encodeS_scalarKey g0 ks k hk]; exact h1
            simp only [mapSortedB, Bool.and_eq_true, List.all_eq_true] at hsrt
            obtain ⟨ih1, ih2, ih3⟩ := ih ps es' h3 hsrt.2
            have hlater : ∀ q ∈ ps, ∃ y, encodeS 1 ks q.1 = some y ∧ bytesLt a y = true := by
              intro q hq
              have := hsrt.1 q hq
              simp only [h1'] at this
              cases hy : encodeS 1 ks q.1 with
              | none => simp [hy] at this
              | some y => exact ⟨y, rfl, by simpa [hy] using this⟩
            refine ⟨List.Pairwise.cons ?_ ih1, List.Pairwise.cons ?_ ih2, ?_⟩
            · intro e he
              obtain ⟨q, hq, hqe⟩ := ih3 e he
              obtain ⟨y, hy, hlt⟩ := hlater q hq
              rw [hqe] at hy; simp at hy; subst hy
              simp [bytesLt_asymm _ _ hlt]
            · intro q hq
              cases hke : k.keyEq q.1 with
              | false => rfl
              | true =>
                have := keyEq_eq _ _ hke
                obtain ⟨y, hy, hlt⟩ := hlater q hq
                rw [← this, h1'] at hy; simp at hy; subst hy
                rw [bytesLt_irrefl] at hlt; cases hlt
            · intro e he
              rcases List.mem_cons.mp he with he | he
              · subst he; exact ⟨(k, v), by simp, h1'⟩
              · obtain ⟨q, hq, hqe⟩ := ih3 e he
                exact ⟨q, by simp [hq], hqe⟩

/-- the typed round trip of the pairs of a map -/
def RtM (ok : CertOracle) (g : Nat) : Prop :=
  ∀ (ks vs : Schema) (ps : List (Val × Val)) (es : List (Bytes × Bytes)) (r : Bytes) (d F : Nat) (acc : List (Val × Val)),
    ks.inFragment = true → ks.scalarKey = true → vs.inFragment = true → encodeMapPairs g ks vs ps = some es → confPairs ok g d ks vs ps = true →
    (flatM es).length < 18446744073709551616 → 2 * (flatM es).length + 2 + max ks.ptrDepth vs.ptrDepth ≤ F →
    (∀ p ∈ acc, ∀ q ∈ ps, p.1.keyEq q.1 = false) → ps.Pairwise (fun a b => a.1.keyEq b.1 = false) →
    decodeMapPairs ok F d ks vs ps.length acc (flatM es ++ r) = some (acc ++ ps, r)

/-- the untyped decoder on the pairs of a map -/
def WM (ok : CertOracle) (g : Nat) : Prop :=
  ∀ (ks vs : Schema) (ps : List (Val × Val)) (es : List (Bytes × Bytes)) (r : Bytes) (dc dr F : Nat),
    ks.inFragment = true → vs.inFragment = true → encodeMapPairs g ks vs ps = some es → confPairs ok g dc ks vs ps = true →
    wconfPairs g dr ks vs ps = true →
    (flatM es).length < 18446744073709551616 → 2 * (flatM es).length + 2 + max ks.ptrDepth vs.ptrDepth ≤ F →
    ∃ xs, decodePairs F dr ps.length (flatM es ++ r) = some (xs, r)


/-- what a `neverNull` type in the fragment encodes never starts with null/undefined -/
theorem enc_notNull (g : Nat) (s : Schema) (v : Val) (b r : Bytes) (hn : s.neverNull = true)
    (henc : encodeS g s v = some b) : isNullHead (b ++ r) = none := by
  cases g with
  | zero => simp [encodeS] at henc
  | succ g =>
    cases s <;> simp [Schema.neverNull] at hn
    case uint max =>
      cases v <;> simp [encodeS] at henc
      subst henc; exact isNullHead_encHead 0 _ _ (by omega)
    case int bits =>
      cases v <;> simp [encodeS] at henc
      subst henc; split
      · exact isNullHead_encHead 0 _ _ (by omega)
      · exact isNullHead_encHead 1 _ _ (by omega)
    case bool =>
      cases v <;> simp [encodeS] at henc
      rename_i bv
      subst henc
      cases bv <;> simp [isNullHead, decHead]
    case bytes =>
      cases v <;> simp [encodeS] at henc
      subst henc; rw [List.append_assoc]; exact isNullHead_encHead 2 _ _ (by omega)
    case text =>
      cases v <;> simp [encodeS] at henc
      subst henc; rw [List.append_assoc]; exact isNullHead_encHead 3 _ _ (by omega)
    case fixed n =>
      cases v <;> simp [encodeS] at henc
      subst henc; rw [List.append_assoc]; exact isNullHead_encHead 2 _ _ (by omega)
    case slice e =>
      cases v <;> simp [encodeS] at henc
      rename_i vs
      cases h1 : encodeList g e vs with
      | none => simp [h1] at henc
      | some c => simp [h1] at henc; subst henc; rw [List.append_assoc]; exact isNullHead_encHead 4 _ _ (by omega)
    case struct fs =>
      cases v <;> simp [encodeS] at henc
      rename_i vs
      cases h1 : encodeFields g fs vs with
      | none => simp [h1] at henc
      | some q => simp [h1] at henc; subst henc; rw [List.append_assoc]; exact isNullHead_encHead 4 _ _ (by omega)
    case tagAny e =>
      cases v <;> simp [encodeS] at henc
      rename_i n x
      cases h1 : encodeS g e x with
      | none => simp [h1] at henc
      | some c => simp [h1] at henc; subst henc; rw [List.append_assoc]; exact isNullHead_encHead 6 _ _ (by omega)
    case tagNum n e =>
      cases v <;> simp [encodeS] at henc
      rename_i m x
      cases h1 : encodeS g e x with
      | none => simp [h1] at henc
      | some c => simp [h1] at henc; subst henc; rw [List.append_assoc]; exact isNullHead_encHead 6 _ _ (by omega)
    case bstr e =>
      cases h1 : encodeS g e v with
      | none => exfalso; cases v <;> simp [encodeS, h1] at henc
      | some c =>
        have hb : b = encHead 2 c.length ++ c := by cases v <;> (simp [encodeS, h1] at henc; exact henc.symm)
        subst hb; rw [List.append_assoc]; exact isNullHead_encHead 2 _ _ (by omega)
    case wrap e =>
      cases h1 : encodeS g e v with
      | none => exfalso; cases v <;> simp [encodeS, h1] at henc
      | some c =>
        have hb : b = encHead 2 c.length ++ c := by cases v <;> (simp [encodeS, h1] at henc; exact henc.symm)
        subst hb; rw [List.append_assoc]; exact isNullHead_encHead 2 _ _ (by omega)
    case wrapBytes =>
      cases v <;> simp [encodeS] at henc
      subst henc; rw [List.append_assoc]; exact isNullHead_encHead 2 _ _ (by omega)
    case cert =>
      cases v <;> simp [encodeS] at henc
      all_goals (subst henc; rw [List.append_assoc]; exact isNullHead_encHead 2 _ _ (by omega))
    case mapOf ks vs =>
      cases v <;> simp [encodeS] at henc
      rename_i ps
      cases h1 : encodeMapPairs g ks vs ps with
      | none => simp [h1] at henc
      | some es => simp [h1] at henc; subst henc; rw [List.append_assoc]; exact isNullHead_encHead 5 _ _ (by omega)


/-- encodings in the fragment are never empty -/
theorem enc_pos (ok : CertOracle) : ∀ (g : Nat) (s : Schema) (v : Val) (b : Bytes) (d : Nat), s.inFragment = true → conf ok g d s v = true → encodeS g s v = some b → 1 ≤ b.length := by
  intro g
  induction g with
  | zero => intro s v b d _ _ h; simp [encodeS] at h
  | succ g ih =>
    intro s v b d hs hconf henc
    have hh := fun mt n => encHead_length_pos mt n
    cases s <;> simp [Schema.inFragment] at hs
    case uint max => cases v <;> simp [encodeS] at henc; subst henc; exact hh _ _
    case int bits =>
      cases v <;> simp [encodeS] at henc
      subst henc; split <;> exact hh _ _
    case bool => cases v <;> simp [encodeS] at henc; subst henc; simp
    case bytes => cases v <;> simp [encodeS] at henc; subst henc; have := hh 2 ‹Bytes›.length; simp; omega
    case text => cases v <;> simp [encodeS] at henc; subst henc; have := hh 3 ‹Bytes›.length; simp; omega
    case fixed n => cases v <;> simp [encodeS] at henc; subst henc; have := hh 2 ‹Bytes›.length; simp; omega
    case wrapBytes => cases v <;> simp [encodeS] at henc; subst henc; have := hh 2 ‹Bytes›.length; simp; omega
    case any => cases v <;> simp [encodeS] at henc; subst henc; exact encodeAny_len_pos _
    case coseKey =>
      cases v <;> simp [encodeS] at henc
      rename_i ps
      simp only [conf, Bool.and_eq_true] at hconf
      exact ih (.mapOf .label .any) (.map ps) b maxDepth (by decide) hconf.1.1 henc
    case chunk =>
      obtain ⟨a, b', ms, rfl⟩ := chunk_shape g v b henc
      simp only [conf, Bool.and_eq_true] at hconf
      rw [chunk_enc g a b' ms hconf.1.1] at henc
      simp at henc; subst henc; exact encodeAny_len_pos _
    case slice e =>
      cases v <;> simp [encodeS] at henc
      rename_i vs
      cases h1 : encodeList g e vs with
      | none => simp [h1] at henc
      | some c => simp [h1] at henc; subst henc; have := hh 4 vs.length; simp; omega
    case struct fs =>
      cases v <;> simp [encodeS] at henc
      rename_i vs
      cases h1 : encodeFields g fs vs with
      | none => simp [h1] at henc
      | some q => simp [h1] at henc; subst henc; have := hh 4 q.1; simp; omega
    case tagAny e =>
      cases v <;> simp [encodeS] at henc
      rename_i n x
      cases h1 : encodeS g e x with
      | none => simp [h1] at henc
      | some c => simp [h1] at henc; subst henc; have := hh 6 n; simp; omega
    case tagNum n e =>
      cases v <;> simp [encodeS] at henc
      rename_i m x
      cases h1 : encodeS g e x with
      | none => simp [h1] at henc
      | some c => simp [h1] at henc; subst henc; have := hh 6 m; simp; omega
    case bstr e =>
      cases h1 : encodeS g e v with
      | none => exfalso; cases v <;> simp [encodeS, h1] at henc
      | some c =>
        have hb : b = encHead 2 c.length ++ c := by cases v <;> (simp [encodeS, h1] at henc; exact henc.symm)
        subst hb; have := hh 2 c.length; simp; omega
    case wrap e =>
      cases h1 : encodeS g e v with
      | none => exfalso; cases v <;> simp [encodeS, h1] at henc
      | some c =>
        have hb : b = encHead 2 c.length ++ c := by cases v <;> (simp [encodeS, h1] at henc; exact henc.symm)
        subst hb; have := hh 2 c.length; simp; omega
    case ptr e =>
      cases v <;> simp [encodeS] at henc
      · subst henc; simp
      · simp only [conf] at hconf; exact ih e _ b d hs.1 hconf henc
    case raw =>
      cases v <;> simp [encodeS] at henc
      rename_i rb
      subst henc
      cases rb <;> simp
    case cert =>
      cases v <;> simp [encodeS] at henc
      all_goals (subst henc; have := hh 2 ‹Bytes›.length; simp; omega)
    case mapOf ks vs =>
      cases v <;> simp [encodeS] at henc
      rename_i ps
      cases h1 : encodeMapPairs g ks vs ps with
      | none => simp [h1] at henc
      | some es => simp [h1] at henc; subst henc; have := hh 5 ps.length; simp; omega
    case timestamp =>
      cases v <;> simp [encodeS] at henc
      rename_i z u
      cases z <;> simp at henc <;> subst henc
      · have := hh 6 1; simp; omega
      · simp
    case label =>
      have hl : labelOK v = true := by cases v <;> simpa [conf] using hconf
      have hb : b = encLabel v := by cases v <;> (simp [encodeS] at henc; exact henc.symm)
      subst hb
      exact encLabel_len_pos v hl

/-! ### typed encodings are single well-formed items for the untyped decoder -/

def WS (ok : CertOracle) (g : Nat) : Prop :=
  ∀ (s : Schema) (v : Val) (b r : Bytes) (dc dr F : Nat), s.inFragment = true → encodeS g s v = some b →
    conf ok g dc s v = true → wconf g dr s v = true → b.length < 18446744073709551616 → 2 * b.length + 1 + s.ptrDepth ≤ F →
    ∃ x, decode F dr (b ++ r) = some (x, r)

def WL (ok : CertOracle) (g : Nat) : Prop :=
  ∀ (e : Schema) (vs : List Val) (b r : Bytes) (dc dr F : Nat), e.inFragment = true → encodeList g e vs = some b →
    confList ok g dc e vs = true → wconfList g dr e vs = true → b.length < 18446744073709551616 → 2 * b.length + 2 + e.ptrDepth ≤ F →
    ∃ xs, decodeItems F dr vs.length (b ++ r) = some (xs, r)

def WFld (ok : CertOracle) (g : Nat) : Prop :=
  ∀ (fs : Fields) (vs : List Val) (cnt : Nat) (b r : Bytes) (dc dr F : Nat), fs.inFragment = true →
    encodeFields g fs vs = some (cnt, b) → confFields ok g dc fs vs = true → wconfFields g dr fs vs = true →
    b.length < 18446744073709551616 → 2 * b.length + 2 + fs.ptrDepth ≤ F →
    cnt ≤ fs.slots ∧ ∃ xs, decodeItems F dr cnt (b ++ r) = some (xs, r)

theorem wL_step (ok : CertOracle) (g : Nat) (hS : WS ok g) (hL : WL ok g) : WL ok (g + 1) := by
  intro e vs b r dc dr F he henc hconf hw hlen hF
  cases vs with
  | nil =>
    simp [encodeList] at henc; subst henc
    exact ⟨.nil, by cases F <;> simp [decodeItems]⟩
  | cons v vs =>
    simp only [encodeList] at henc
    cases h1 : encodeS g e v with
    | none => simp [h1] at henc
    | some a =>
      cases h2 : encodeList g e vs with
      | none => simp [h1, h2] at henc
      | some c =>
        simp [h1, h2] at henc; subst henc
        simp only [confList, Bool.and_eq_true] at hconf
        simp only [wconfList, Bool.and_eq_true] at hw
        simp only [List.length_append] at hlen hF
        have hpos : 1 ≤ a.length := enc_pos ok g e v a dc he hconf.1 h1
        obtain ⟨F', rfl⟩ : ∃ F', F = F' + 1 := ⟨F - 1, by omega⟩
        obtain ⟨x, d1⟩ := hS e v a (c ++ r) dc dr F' he h1 hconf.1 hw.1 (by omega) (by omega)
        obtain ⟨xs, d2⟩ := hL e vs c r dc dr F' he h2 hconf.2 hw.2 (by omega) (by omega)
        exact ⟨.cons x xs, by simp only [List.length_cons, decodeItems, List.append_assoc, d1, d2]⟩



theorem wF_step (ok : CertOracle) (g : Nat) (hS : WS ok g) (hF : WFld ok g) : WFld ok (g + 1) := by
  intro fs vs cnt b r dc dr F hfs henc hconf hw hlen hFu
  obtain ⟨F', rfl⟩ : ∃ F', F = F' + 1 := ⟨F - 1, by omega⟩
  cases fs with
  | nil =>
    cases vs with
    | nil =>
      simp [encodeFields] at henc
      obtain ⟨rfl, rfl⟩ := henc
      exact ⟨by simp [Fields.slots], .nil, by simp [decodeItems]⟩
    | cons v vs => simp [encodeFields] at henc
  | cons s o rest =>
    cases vs with
    | nil => simp [encodeFields] at henc
    | cons v vs =>
      simp only [confFields, Bool.and_eq_true] at hconf
      simp only [wconfFields, Bool.and_eq_true] at hw
      simp only [Fields.ptrDepth] at hFu
      have hfs' : s.inFragment = true ∧ rest.inFragment = true := by
        cases o
        · cases s <;> simpa [Fields.inFragment] using hfs
        · cases s <;> simp [Fields.inFragment, Schema.inFragment] at hfs ⊢ <;> exact hfs
      by_cases hskip : (o = true ∧ isEmptyAt s v = true)
      · simp only [encodeFields, hskip, and_self, if_true] at henc
        simp only [hskip.1, if_true] at hFu
        obtain ⟨hc, xs, hx⟩ := hF rest vs cnt b r dc dr F' hfs'.2 henc hconf.2 hw.2 hlen (by omega)
        refine ⟨by simp [Fields.slots]; omega, xs, ?_⟩
        -- one step more of fuel than needed
        cases cnt with
        | zero => simp [decodeItems] at hx ⊢; exact hx
        | succ n => exact decodeItems_fuel F' dr (n + 1) (b ++ r) xs r hx (F' + 1) (by
            have := decodeItems_len F' dr (n+1) (b ++ r) xs r hx
            simp at this ⊢; omega)
      · have hne : ¬ (o = true ∧ isEmptyAt s v = true) := hskip
        simp only [encodeFields, hne, if_false] at henc
        cases h1 : encodeS g s v with
        | none => simp [h1] at henc
        | some a =>
          cases h2 : encodeFields g rest vs with
          | none => simp [h1, h2] at henc
          | some q =>
            obtain ⟨n, c⟩ := q
            simp [h1, h2] at henc
            obtain ⟨rfl, rfl⟩ := henc
            simp only [List.length_append] at hlen hFu
            have hpos := enc_pos ok g s v a dc hfs'.1 hconf.1 h1
            obtain ⟨x, d1⟩ := hS s v a (c ++ r) dc dr F' hfs'.1 h1 hconf.1 hw.1 (by omega) (by omega)
            obtain ⟨hc, xs, d2⟩ := hF rest vs n c r dc dr F' hfs'.2 h2 hconf.2 hw.2 (by omega) (by omega)
            exact ⟨by simp [Fields.slots]; omega, .cons x xs, by simp only [decodeItems, List.append_assoc, d1, d2]⟩
  | hdr fs =>
    simp only [Fields.inFragment] at hfs
    simp only [Fields.ptrDepth] at hFu
    cases vs with
    | nil => simp [encodeFields] at henc
    | cons v vs =>
      cases v <;> try (simp [encodeFields] at henc; done)
      rename_i pm um
      simp only [confFields, Bool.and_eq_true, hdrMapOK, decide_eq_true_eq] at hconf
      obtain ⟨⟨⟨⟨⟨pe, psb⟩, pl⟩, pml⟩, ⟨⟨⟨ue, usb⟩, ul⟩, _⟩⟩, hcf⟩ := hconf
      have ps := hdrSortedB_sound pm psb
      have us := hdrSortedB_sound um usb
      simp only [wconfFields, Bool.and_eq_true, decide_eq_true_eq] at hw
      simp only [encodeFields] at henc
      cases h2 : encodeFields g fs vs with
      | none => simp [h2] at henc
      | some q =>
        obtain ⟨n, c⟩ := q
        simp [h2] at henc
        obtain ⟨rfl, rfl⟩ := henc
        simp only [List.length_append] at hlen hFu
        have hul := encHdrMap_len um ue us
        obtain ⟨F'', rfl⟩ : ∃ F'', F' = F'' + 1 := ⟨F' - 1, by omega⟩
        -- protected bucket: a byte string
        have hprot : ∃ p : Bytes, (if pm = [] then [0x40] else encHead 2 (encHdrMap pm).length ++ encHdrMap pm) = p ∧ 1 ≤ p.length ∧
            ∀ rest, ∃ x, decode (F'' + 1) dr (p ++ rest) = some (x, rest) := by
          by_cases hpe : pm = []
          · subst hpe
            refine ⟨[0x40], by simp, by simp, ?_⟩
            intro rest; exact ⟨.bstr [], by simp [decode, decHead, maxLen]⟩
          · have hh := encHead_length_pos 2 (encHdrMap pm).length
            refine ⟨_, if_neg hpe, by simp; omega, ?_⟩
            intro rest
            obtain ⟨ai, hd⟩ := decHead_encHead 2 (encHdrMap pm).length (encHdrMap pm ++ rest) (by omega) (by simp [maxLen] at pml; omega)
            refine ⟨.bstr (encHdrMap pm), ?_⟩
            simp only [decode, List.append_assoc, hd]
            have : ¬ ((encHdrMap pm).length ≥ maxLen ∨ (encHdrMap pm ++ rest).length < (encHdrMap pm).length) := by simp; omega
            simp [this]; exact pml
        obtain ⟨p, hp, hp1, hdec⟩ := hprot
        rw [hp] at hlen hFu ⊢
        obtain ⟨xp, hxp⟩ := hdec (encHdrMap um ++ (c ++ r))
        obtain ⟨xu, hxu⟩ := decode_hdrMap um (c ++ r) F'' dr ue us ul hw.1 (by omega)
        obtain ⟨hc, xs, d2⟩ := hF fs vs n c r dc dr F'' hfs h2 hcf hw.2 (by omega) (by omega)
        refine ⟨by simp [Fields.slots]; omega, .cons xp (.cons xu xs), ?_⟩
        have e : p ++ (encHdrMap um ++ c) ++ r = p ++ (encHdrMap um ++ (c ++ r)) := by simp [List.append_assoc]
        rw [e]
        simp only [decodeItems, hxp, hxu, d2]



theorem wM_step (ok : CertOracle) (g : Nat) (hS : WS ok g) (hM : WM ok g) : WM ok (g + 1) := by
  intro ks vs ps es r dc dr F hks hvs henc hconf hw hlen hFu
  cases ps with
  | nil =>
    simp [encodeMapPairs] at henc; subst henc
    exact ⟨.nil, by cases F <;> simp [decodePairs, flatM]⟩
  | cons kv ps =>
    obtain ⟨k, v⟩ := kv
    simp only [encodeMapPairs] at henc
    cases h1 : encodeS g ks k with
    | none => simp [h1] at henc
    | some a =>
      cases h2 : encodeS g vs v with
      | none => simp [h1, h2] at henc
      | some b =>
        cases h3 : encodeMapPairs g ks vs ps with
        | none => simp [h1, h2, h3] at henc
        | some es' =>
          simp [h1, h2, h3] at henc; subst henc
          simp only [confPairs, Bool.and_eq_true] at hconf
          simp only [wconfPairs, Bool.and_eq_true] at hw
          have hsplit : flatM ((a, b) :: es') ++ r = a ++ (b ++ (flatM es' ++ r)) := by simp [flatM, List.append_assoc]
          have hl : (flatM ((a, b) :: es')).length = a.length + b.length + (flatM es').length := by simp [flatM]; omega
          rw [hl] at hlen hFu
          rw [hsplit]
          have pa := enc_pos ok g ks k a dc hks hconf.1.1 h1
          have pb := enc_pos ok g vs v b dc hvs hconf.1.2 h2
          obtain ⟨F', rfl⟩ : ∃ F', F = F' + 1 := ⟨F - 1, by omega⟩
          obtain ⟨x1, d1⟩ := hS ks k a (b ++ (flatM es' ++ r)) dc dr F' hks h1 hconf.1.1 hw.1.1 (by omega) (by omega)
          obtain ⟨x2, d2⟩ := hS vs v b (flatM es' ++ r) dc dr F' hvs h2 hconf.1.2 hw.1.2 (by omega) (by omega)
          obtain ⟨xs, d3⟩ := hM ks vs ps es' r dc dr F' hks hvs h3 hconf.2 hw.2 (by omega) (by omega)
          exact ⟨.cons x1 x2 xs, by simp only [List.length_cons, decodePairs, d1, d2, d3]⟩

theorem wS_step (ok : CertOracle) (g : Nat) (hS : WS ok g) (hL : WL ok g) (hF : WFld ok g) (hM : WM ok g) : WS ok (g + 1) := by
  intro s v b r dc dr F hs henc hconf hw hlen hFu
  obtain ⟨F', rfl⟩ : ∃ F', F = F' + 1 := ⟨F - 1, by omega⟩
  cases s with
  | uint max =>
    simp only [Schema.inFragment, decide_eq_true_eq] at hs
    cases v <;> try (simp [encodeS] at henc; done)
    rename_i n
    simp [encodeS] at henc; subst henc
    simp only [conf, decide_eq_true_eq] at hconf
    obtain ⟨ai, hd⟩ := decHead_encHead 0 n r (by omega) (by omega)
    exact ⟨.uint n, by simp [decode, hd]⟩
  | int bits =>
    cases v <;> try (simp [encodeS] at henc; done)
    rename_i i
    simp only [Schema.inFragment, decide_eq_true_eq] at hs
    simp only [conf, decide_eq_true_eq] at hconf
    have hp : (2 : Int) ^ (bits - 1) ≤ 2 ^ 63 := by
      have : bits - 1 ≤ 63 := by omega
      exact_mod_cast Nat.pow_le_pow_right (by decide : 1 ≤ 2) this
    by_cases hi : i ≥ 0
    · simp [encodeS, hi] at henc; subst henc
      obtain ⟨ai, hd⟩ := decHead_encHead 0 i.toNat r (by omega) (by omega)
      exact ⟨.uint i.toNat, by simp [decode, hd]⟩
    · simp [encodeS, hi] at henc; subst henc
      obtain ⟨ai, hd⟩ := decHead_encHead 1 (-1 - i).toNat r (by omega) (by omega)
      exact ⟨.nint (-1 - i).toNat, by simp [decode, hd]⟩
  | bool =>
    cases v <;> try (simp [encodeS] at henc; done)
    rename_i bv
    simp [encodeS] at henc; subst henc
    cases bv
    · exact ⟨.simple 20, by simp [decode, decHead]⟩
    · exact ⟨.simple 21, by simp [decode, decHead]⟩
  | bytes =>
    cases v <;> try (simp [encodeS] at henc; done)
    rename_i bb
    simp [encodeS] at henc; subst henc
    simp only [conf, decide_eq_true_eq] at hconf
    obtain ⟨ai, hd⟩ := decHead_encHead 2 bb.length (bb ++ r) (by omega) (by simp [maxLen] at hconf; omega)
    refine ⟨.bstr bb, ?_⟩
    simp only [decode, List.append_assoc, hd]; simp; omega
  | text =>
    cases v <;> try (simp [encodeS] at henc; done)
    rename_i bb
    simp [encodeS] at henc; subst henc
    simp only [conf, decide_eq_true_eq] at hconf
    obtain ⟨ai, hd⟩ := decHead_encHead 3 bb.length (bb ++ r) (by omega) (by simp [maxLen] at hconf; omega)
    refine ⟨.tstr bb, ?_⟩
    simp only [decode, List.append_assoc, hd]; simp; omega
  | fixed n =>
    simp only [Schema.inFragment, decide_eq_true_eq] at hs
    cases v <;> try (simp [encodeS] at henc; done)
    rename_i bb
    simp [encodeS] at henc; subst henc
    simp only [conf, decide_eq_true_eq] at hconf
    obtain ⟨ai, hd⟩ := decHead_encHead 2 bb.length (bb ++ r) (by omega) (by simp [maxLen] at hs; omega)
    refine ⟨.bstr bb, ?_⟩
    simp only [decode, List.append_assoc, hd]; simp; omega
  | wrapBytes =>
    cases v <;> try (simp [encodeS] at henc; done)
    rename_i bb
    simp [encodeS] at henc; subst henc
    simp only [wconf, decide_eq_true_eq] at hw
    obtain ⟨ai, hd⟩ := decHead_encHead 2 bb.length (bb ++ r) (by omega) (by simp [maxLen] at hw; omega)
    refine ⟨.bstr bb, ?_⟩
    simp only [decode, List.append_assoc, hd]; simp; omega
  | bstr e =>
    cases h1 : encodeS g e v with
    | none => exfalso; cases v <;> simp [encodeS, h1] at henc
    | some c =>
      have hb : b = encHead 2 c.length ++ c := by cases v <;> (simp [encodeS, h1] at henc; exact henc.symm)
      subst hb
      have hw' : c.length < maxLen := by cases v <;> simpa [wconf, h1] using hw
      obtain ⟨ai, hd⟩ := decHead_encHead 2 c.length (c ++ r) (by omega) (by simp [maxLen] at hw'; omega)
      refine ⟨.bstr c, ?_⟩
      simp only [decode, List.append_assoc, hd]; simp; omega
  | wrap e =>
    cases h1 : encodeS g e v with
    | none => exfalso; cases v <;> simp [encodeS, h1] at henc
    | some c =>
      have hb : b = encHead 2 c.length ++ c := by cases v <;> (simp [encodeS, h1] at henc; exact henc.symm)
      subst hb
      have hw' : c.length < maxLen := by cases v <;> simpa [wconf, h1] using hw
      obtain ⟨ai, hd⟩ := decHead_encHead 2 c.length (c ++ r) (by omega) (by simp [maxLen] at hw'; omega)
      refine ⟨.bstr c, ?_⟩
      simp only [decode, List.append_assoc, hd]; simp; omega
  | slice e =>
    simp only [Schema.ptrDepth] at hFu
    simp only [Schema.inFragment] at hs
    cases v <;> try (simp [encodeS] at henc; done)
    rename_i vs
    simp only [encodeS] at henc
    cases h1 : encodeList g e vs with
    | none => simp [h1] at henc
    | some c =>
      simp [h1] at henc; subst henc
      simp only [conf, Bool.and_eq_true, decide_eq_true_eq] at hconf
      simp only [wconf, Bool.and_eq_true, decide_eq_true_eq] at hw
      simp only [List.length_append] at hlen hFu
      have hp := encHead_length_pos 4 vs.length
      obtain ⟨xs, d1⟩ := hL e vs c r (dc - 1) (dr - 1) F' hs h1 hconf.2 hw.2 (by omega) (by omega)
      obtain ⟨ai, hd⟩ := decHead_encHead 4 vs.length (c ++ r) (by omega) (by have := hconf.1.2; simp [maxLen] at this; omega)
      refine ⟨.arr xs, ?_⟩
      simp only [decode, List.append_assoc, hd, d1]
      have : ¬ (vs.length ≥ maxLen ∨ dr = 0) := by omega
      simp [this]
  | struct fs =>
    simp only [Schema.ptrDepth] at hFu
    simp only [Schema.inFragment, Bool.and_eq_true, decide_eq_true_eq] at hs
    cases v <;> try (simp [encodeS] at henc; done)
    rename_i vs
    simp only [encodeS] at henc
    cases h1 : encodeFields g fs vs with
    | none => simp [h1] at henc
    | some q =>
      obtain ⟨cnt, c⟩ := q
      simp [h1] at henc; subst henc
      simp only [conf, Bool.and_eq_true, decide_eq_true_eq] at hconf
      simp only [wconf, Bool.and_eq_true, decide_eq_true_eq] at hw
      simp only [List.length_append] at hlen hFu
      have hp := encHead_length_pos 4 cnt
      obtain ⟨hc, xs, d1⟩ := hF fs vs cnt c r (dc - 1) (dr - 1) F' hs.1 h1 hconf.2 hw.2 (by omega) (by omega)
      have hsl : fs.slots < 100000 := by have := hs.2.1; simpa [maxLen] using this
      obtain ⟨ai, hd⟩ := decHead_encHead 4 cnt (c ++ r) (by omega) (by omega)
      refine ⟨.arr xs, ?_⟩
      simp only [decode, List.append_assoc, hd, d1]
      have : ¬ (cnt ≥ maxLen ∨ dr = 0) := by simp [maxLen]; omega
      simp [this]
  | tagAny e =>
    simp only [Schema.ptrDepth] at hFu
    simp only [Schema.inFragment] at hs
    cases v <;> try (simp [encodeS] at henc; done)
    rename_i n x
    simp only [encodeS] at henc
    cases h1 : encodeS g e x with
    | none => simp [h1] at henc
    | some c =>
      simp [h1] at henc; subst henc
      simp only [conf, Bool.and_eq_true, decide_eq_true_eq] at hconf
      simp only [wconf, Bool.and_eq_true, decide_eq_true_eq] at hw
      simp only [List.length_append] at hlen hFu
      have hp := encHead_length_pos 6 n
      obtain ⟨x', d1⟩ := hS e x c r maxDepth (dr - 1) F' hs h1 hconf.2 hw.2 (by omega) (by omega)
      obtain ⟨ai, hd⟩ := decHead_encHead 6 n (c ++ r) (by omega) hconf.1
      refine ⟨.tag n x', ?_⟩
      simp only [decode, List.append_assoc, hd, d1]
      have : ¬ (dr = 0) := by omega
      simp [this]
  | tagNum n e =>
    simp only [Schema.ptrDepth] at hFu
    simp only [Schema.inFragment, Bool.and_eq_true, decide_eq_true_eq] at hs
    cases v <;> try (simp [encodeS] at henc; done)
    rename_i m x
    simp only [encodeS] at henc
    cases h1 : encodeS g e x with
    | none => simp [h1] at henc
    | some c =>
      simp [h1] at henc; subst henc
      simp only [conf, Bool.and_eq_true, decide_eq_true_eq] at hconf
      simp only [wconf, Bool.and_eq_true, decide_eq_true_eq] at hw
      simp only [List.length_append] at hlen hFu
      have hp := encHead_length_pos 6 m
      obtain ⟨x', d1⟩ := hS e x c r maxDepth (dr - 1) F' hs.1 h1 hconf.1.2 hw.2 (by omega) (by omega)
      obtain ⟨ai, hd⟩ := decHead_encHead 6 m (c ++ r) (by omega) (by have := hconf.1.1.1; omega)
      refine ⟨.tag m x', ?_⟩
      simp only [decode, List.append_assoc, hd, d1]
      have : ¬ (dr = 0) := by omega
      simp [this]
  | ptr e =>
    simp only [Schema.ptrDepth] at hFu
    simp only [Schema.inFragment, Bool.and_eq_true] at hs
    cases v <;> try (simp [encodeS] at henc; done)
    · simp [encodeS] at henc; subst henc
      exact ⟨.simple 22, by simp [decode, decHead]⟩
    · rename_i x
      simp only [encodeS] at henc
      simp only [conf] at hconf
      simp only [wconf] at hw
      obtain ⟨x', d1⟩ := hS e x b r dc dr F' hs.1 henc hconf hw hlen (by omega)
      exact ⟨x', decode_fuel F' dr (b ++ r) x' r d1 (F' + 1) (by
        have := decode_len F' dr (b ++ r) x' r d1
        simp at this ⊢; omega)⟩
  | raw =>
    simp only [Schema.ptrDepth] at hFu
    cases v <;> try (simp [encodeS] at henc; done)
    rename_i rb
    simp only [wconf] at hw
    cases hdq : decode (2 * rb.length + 1) dr rb with
    | none => simp [hdq] at hw
    | some q =>
      obtain ⟨x, rr⟩ := q
      cases rr with
      | cons _ _ => simp [hdq] at hw
      | nil =>
        have hne : rb ≠ [] := by
          intro h0; subst h0; simp [decode, decHead] at hdq
        have hie : rb.isEmpty = false := by cases rb <;> simp_all
        simp [encodeS, hie] at henc
        subst henc
        have h2 := decode_fuel _ dr rb x [] hdq (F' + 1) (by simp; omega)
        exact ⟨x, by simpa using decode_append (F' + 1) dr rb r x [] h2⟩
  | cert =>
    cases v <;> try (simp [encodeS] at henc; done)
    · simp [conf] at hconf
    · rename_i der
      simp [encodeS] at henc; subst henc
      simp only [wconf, decide_eq_true_eq] at hw
      obtain ⟨ai, hd⟩ := decHead_encHead 2 der.length (der ++ r) (by omega) (by simp [maxLen] at hw; omega)
      refine ⟨.bstr der, ?_⟩
      simp only [decode, List.append_assoc, hd]; simp; omega
  | timestamp =>
    cases v <;> try (simp [encodeS] at henc; done)
    rename_i z u
    simp only [conf, decide_eq_true_eq] at hconf
    cases z with
    | true =>
      simp [encodeS] at henc; subst henc
      exact ⟨.simple 22, by simp [decode, decHead]⟩
    | false =>
      simp only [wconf, Bool.false_or, decide_eq_true_eq] at hw
      simp [encodeS] at henc; subst henc
      obtain ⟨F'', rfl⟩ : ∃ F'', F' = F'' + 1 := ⟨F' - 1, by simp at hFu; have := encHead_length_pos 6 1; omega⟩
      obtain ⟨ai, hd⟩ := decHead_encHead 6 1 ((if u ≥ 0 then encHead 0 u.toNat else encHead 1 (-1 - u).toNat) ++ r) (by omega) (by omega)
      have hinner : ∃ x, decode (F'' + 1) (dr - 1) ((if u ≥ 0 then encHead 0 u.toNat else encHead 1 (-1 - u).toNat) ++ r) = some (x, r) := by
        by_cases h0 : u ≥ 0
        · obtain ⟨ai2, hd2⟩ := decHead_encHead 0 u.toNat r (by omega) (by omega)
          exact ⟨.uint u.toNat, by simp [h0, decode, hd2]⟩
        · obtain ⟨ai2, hd2⟩ := decHead_encHead 1 (-1 - u).toNat r (by omega) (by omega)
          exact ⟨.nint (-1 - u).toNat, by simp [h0, decode, hd2]⟩
      obtain ⟨x, hx⟩ := hinner
      refine ⟨.tag 1 x, ?_⟩
      simp only [List.append_assoc]
      simp only [decode, hd, hx]
      have : ¬ (dr = 0) := by omega
      simp [this]
  | label =>
    have hl : labelOK v = true := by cases v <;> simpa [conf] using hconf
    have hb : b = encLabel v := by cases v <;> (simp [encodeS] at henc; exact henc.symm)
    subst hb
    obtain ⟨hke, hks, _⟩ := label_facts v hl
    rw [hke]
    exact ⟨_, scalar_decode_raw (labelAny v) hks r (F' + 1) dr (by omega)⟩
  | mapOf ks vs =>
    simp only [Schema.ptrDepth] at hFu
    simp only [Schema.inFragment, Bool.and_eq_true] at hs
    cases v <;> try (simp [encodeS] at henc; done)
    rename_i ps
    simp only [encodeS] at henc
    cases h1 : encodeMapPairs g ks vs ps with
    | none => simp [h1] at henc
    | some es =>
      simp [h1] at henc; subst henc
      simp only [conf, Bool.and_eq_true, decide_eq_true_eq] at hconf
      simp only [wconf, Bool.and_eq_true, decide_eq_true_eq] at hw
      obtain ⟨⟨⟨hd1, hpl⟩, hcp⟩, hsrt⟩ := hconf
      obtain ⟨hp1, _, _⟩ := sorted_facts ks vs hs.1.2 g ps es h1 hsrt
      have hsort : sortByKey es = es := List.mergeSort_of_pairwise hp1
      have hflat : ((sortByKey es).map fun p => p.1 ++ p.2).flatten = flatM es := by rw [hsort]; rfl
      rw [hflat] at hlen hFu ⊢
      simp only [List.length_append] at hlen hFu
      have hp := encHead_length_pos 5 ps.length
      obtain ⟨xs, d1⟩ := hM ks vs ps es r (dc - 1) (dr - 1) F' hs.1.1 hs.2 h1 hcp hw.2 (by omega) (by omega)
      obtain ⟨ai, hd⟩ := decHead_encHead 5 ps.length (flatM es ++ r) (by omega) (by simp [maxLen] at hpl; omega)
      refine ⟨.map xs, ?_⟩
      simp only [decode, List.append_assoc, hd, d1]
      have : ¬ (ps.length ≥ maxLen ∨ 2 * ps.length ≥ maxLen ∨ dr = 0) := by simp [maxLen] at hpl ⊢; omega
      simp [this]
  | any =>
    cases v <;> try (simp [encodeS] at henc; done)
    rename_i a
    simp [encodeS] at henc; subst henc
    simp only [wconf] at hw
    simp only [Schema.ptrDepth] at hFu
    have h1 := decodeAny_encodeAny a [] dr (2 * (encodeAny a).length) hw (Nat.le_refl _)
    simp only [List.append_nil] at h1
    obtain ⟨x, hx⟩ := decodeAny_then_decode _ _ _ _ _ h1
    have h2 := hx (F' + 1) (by omega)
    exact ⟨x, by simpa using decode_append _ _ _ r _ _ h2⟩
  | coseKey =>
    simp only [Schema.ptrDepth] at hFu
    cases v <;> try (simp [encodeS] at henc; done)
    rename_i ps
    simp only [encodeS] at henc
    simp only [conf, Bool.and_eq_true] at hconf
    simp only [wconf] at hw
    have hfr : (Schema.mapOf .label .any).inFragment = true := by decide
    obtain ⟨x', d1⟩ := hS (.mapOf .label .any) (.map ps) b r maxDepth dr F' hfr henc hconf.1.1 hw hlen (by simp [Schema.ptrDepth]; omega)
    exact ⟨x', decode_fuel F' dr (b ++ r) x' r d1 (F' + 1) (by
      have := decode_len F' dr (b ++ r) x' r d1
      simp at this ⊢; omega)⟩
  | chunk =>
    simp only [Schema.ptrDepth] at hFu
    obtain ⟨a, b', ms, rfl⟩ := chunk_shape g v b henc
    simp only [wconf, Bool.and_eq_true] at hw
    rw [chunk_enc g a b' ms hw.1] at henc
    simp at henc; subst henc
    have h1 := decodeAny_encodeAny (chunkArr a b' ms) [] dr (2 * (encodeAny (chunkArr a b' ms)).length) hw.2 (Nat.le_refl _)
    simp only [List.append_nil] at h1
    obtain ⟨x, hx⟩ := decodeAny_then_decode _ _ _ _ _ h1
    have h2 := hx (F' + 1) (by omega)
    exact ⟨x, by simpa using decode_append _ _ _ r _ _ h2⟩
  | _ => simp [Schema.inFragment] at hs

theorem w_all (ok : CertOracle) (g : Nat) : WS ok g ∧ WL ok g ∧ WFld ok g ∧ WM ok g := by
  induction g with
  | zero =>
    refine ⟨?_, ?_, ?_, ?_⟩
    · intro s v b r dc dr F _ henc; simp [encodeS] at henc
    · intro e vs b r dc dr F _ henc; simp [encodeList] at henc
    · intro fs vs cnt b r dc dr F _ henc; simp [encodeFields] at henc
    · intro ks vs ps es r dc dr F _ _ henc; simp [encodeMapPairs] at henc
  | succ g ih =>
    obtain ⟨hS, hL, hF, hM⟩ := ih
    exact ⟨wS_step ok g hS hL hF hM, wL_step ok g hS hL, wF_step ok g hS hF, wM_step ok g hS hM⟩


/-- the three statements proved together by induction on the encoder's fuel -/
def RtS (ok : CertOracle) (g : Nat) : Prop :=
  ∀ (s : Schema) (v : Val) (b r : Bytes) (d f : Nat), s.inFragment = true → encodeS g s v = some b → conf ok g d s v = true →
    b.length < 18446744073709551616 → 2 * b.length + 1 + s.ptrDepth ≤ f → decodeS ok f d s (b ++ r) = some (v, r) ∧ 1 ≤ b.length

def RtL (ok : CertOracle) (g : Nat) : Prop :=
  ∀ (e : Schema) (vs : List Val) (b r : Bytes) (d f : Nat), e.inFragment = true → encodeList g e vs = some b → confList ok g d e vs = true →
    b.length < 18446744073709551616 → 2 * b.length + 2 + e.ptrDepth ≤ f →
    decodeElems ok f d e vs.length (b ++ r) = some (vs, r) ∧ vs.length ≤ b.length

def RtF (ok : CertOracle) (g : Nat) : Prop :=
  ∀ (fs : Fields) (vs : List Val) (cnt : Nat) (b r : Bytes) (d f : Nat), fs.inFragment = true → fs.omittables ≤ 1 →
    encodeFields g fs vs = some (cnt, b) →
    confFields ok g d fs vs = true → b.length < 18446744073709551616 → 2 * b.length + 2 + fs.ptrDepth ≤ f →
    (cnt = fs.slots ∧ decodeFields ok f d fs false (b ++ r) = some (vs, r)) ∨
    (fs.omittables = 1 ∧ cnt + 1 = fs.slots ∧ decodeFields ok f d fs true (b ++ r) = some (vs, r))

theorem rtL_step (ok : CertOracle) (g : Nat) (hS : RtS ok g) (hL : RtL ok g) : RtL ok (g + 1) := by
  intro e vs b r d f he henc hconf hlen hf
  cases vs with
  | nil =>
    simp [encodeList] at henc; subst henc
    cases f <;> simp [decodeElems]
  | cons v vs =>
    simp only [encodeList] at henc
    cases h1 : encodeS g e v with
    | none => simp [h1] at henc
    | some a =>
      cases h2 : encodeList g e vs with
      | none => simp [h1, h2] at henc
      | some c =>
        simp [h1, h2] at henc; subst henc
        simp only [confList, Bool.and_eq_true] at hconf
        simp only [List.length_append] at hlen hf
        obtain ⟨d1, l1⟩ := hS e v a (c ++ r) d (f - 1) he h1 hconf.1 (by omega) (by omega)
        obtain ⟨d2, l2⟩ := hL e vs c r d (f - 1) he h2 hconf.2 (by omega) (by omega)
        obtain ⟨f', rfl⟩ : ∃ f', f = f' + 1 := ⟨f - 1, by omega⟩
        simp only [Nat.add_sub_cancel] at d1 d2
        refine ⟨?_, by simp; omega⟩
        simp only [List.length_cons, decodeElems, List.append_assoc, d1, d2]


theorem rtF_step (ok : CertOracle) (g : Nat) (hS : RtS ok g) (hF : RtF ok g) : RtF ok (g + 1) := by
  intro fs vs cnt b r d f hfs hom henc hconf hlen hf
  obtain ⟨f', rfl⟩ : ∃ f', f = f' + 1 := ⟨f - 1, by omega⟩
  cases fs with
  | nil =>
    cases vs with
    | nil =>
      simp [encodeFields] at henc
      obtain ⟨rfl, rfl⟩ := henc
      left; simp [decodeFields, Fields.slots]
    | cons v vs => simp [encodeFields] at henc
  | hdr fs =>
    simp only [Fields.inFragment] at hfs
    have hom' : fs.omittables ≤ 1 := by simpa [Fields.omittables] using hom
    simp only [Fields.ptrDepth] at hf
    cases vs with
    | nil => simp [encodeFields] at henc
    | cons v vs =>
      cases v <;> try (simp [encodeFields] at henc; done)
      rename_i pm um
      simp only [confFields, Bool.and_eq_true, hdrMapOK, decide_eq_true_eq] at hconf
      obtain ⟨⟨⟨⟨⟨pe, psb⟩, pl⟩, pml⟩, ⟨⟨⟨ue, usb⟩, ul⟩, _⟩⟩, hcf⟩ := hconf
      have ps := hdrSortedB_sound pm psb
      have us := hdrSortedB_sound um usb
      simp only [encodeFields] at henc
      cases h2 : encodeFields g fs vs with
      | none => simp [h2] at henc
      | some q =>
        obtain ⟨n, c⟩ := q
        simp [h2] at henc
        obtain ⟨rfl, rfl⟩ := henc
        simp only [List.length_append] at hlen hf
        have hul := encHdrMap_len um ue us
        -- the protected bucket: an empty byte string, or the byte string holding the map
        have hprot : ∃ p : Bytes, (if pm = [] then [0x40] else encHead 2 (encHdrMap pm).length ++ encHdrMap pm) = p ∧ 1 ≤ p.length ∧
            pm.length + 1 ≤ 2 * p.length ∧
            ∀ rest, ∃ pb, decodeS ok f' maxDepth .bytes (p ++ rest) = some (.bytes pb, rest) ∧
              ((pb.isEmpty = true ∧ pm = []) ∨ (pb.isEmpty = false ∧ decodeHdrMap f' maxDepth pb = some (pm, []))) := by
          by_cases hpe : pm = []
          · subst hpe
            refine ⟨[0x40], by simp, by simp, by simp, ?_⟩
            intro rest
            refine ⟨[], ?_, Or.inl ⟨rfl, rfl⟩⟩
            obtain ⟨ff, hff⟩ : ∃ ff, f' = ff + 1 := ⟨f' - 1, by omega⟩
            subst hff
            simp [decodeS, decHead, maxLen]
          · have hpl := encHdrMap_len pm pe ps
            have hh := encHead_length_pos 2 (encHdrMap pm).length
            refine ⟨_, if_neg hpe, by simp; omega, by simp; omega, ?_⟩
            intro rest
            refine ⟨encHdrMap pm, ?_, ?_⟩
            · obtain ⟨ai, hd, _⟩ := decHead_encHead28 2 (encHdrMap pm).length (encHdrMap pm ++ rest) (by omega) (by simp [maxLen] at pml; omega)
              obtain ⟨ff, hff⟩ : ∃ ff, f' = ff + 1 := ⟨f' - 1, by omega⟩
              subst hff
              simp only [decodeS, List.append_assoc, hd]
              have : ¬ ((encHdrMap pm).length ≥ maxLen ∨ (encHdrMap pm ++ rest).length < (encHdrMap pm).length) := by simp; omega
              simp [this]; exact pml
            · have hne : (encHdrMap pm).isEmpty = false := by
                cases hq : encHdrMap pm with
                | nil => rw [hq] at hpl; simp at hpl
                | cons _ _ => rfl
              have hf' := hf
              rw [if_neg hpe] at hf'
              simp only [List.length_append] at hf'
              have hrt := decodeHdrMap_rt pm [] f' maxDepth pe ps pl (by simp [maxDepth]) (by omega)
              simp only [List.append_nil] at hrt
              exact Or.inr ⟨hne, hrt⟩
        obtain ⟨p, hp, hp1, hp2, hdec⟩ := hprot
        rw [hp] at hlen hf ⊢
        have hum := decodeHdrMap_rt um (c ++ r) f' maxDepth ue us ul (by simp [maxDepth]) (by omega)
        obtain ⟨pb, hdb, hpm⟩ := hdec (encHdrMap um ++ (c ++ r))
        have step : ∀ skip vs', decodeFields ok f' d fs skip (c ++ r) = some (vs', r) →
            decodeFields ok (f' + 1) d (.hdr fs) skip (p ++ encHdrMap um ++ c ++ r) = some (.hdr pm um :: vs', r) := by
          intro skip vs' hrest
          simp only [decodeFields, List.append_assoc, hdb]
          rcases hpm with ⟨e1, e2⟩ | ⟨e1, e2⟩
          · subst e2; simp only [e1, if_true, hum, hrest]
          · simp only [e1, Bool.false_eq_true, if_false, e2, hum, hrest]
        rcases hF fs vs n c r d f' hfs hom' h2 hcf (by omega) (by omega) with ⟨l2, d2⟩ | ⟨o2, l2, d2⟩
        · left
          exact ⟨by simp [Fields.slots, l2], by simpa [List.append_assoc] using step false vs d2⟩
        · right
          exact ⟨by simpa [Fields.omittables] using o2, by simp [Fields.slots]; omega, by simpa [List.append_assoc] using step true vs d2⟩
  | cons s o rest =>
    cases vs with
    | nil => simp [encodeFields] at henc
    | cons v vs =>
      simp only [confFields, Bool.and_eq_true] at hconf
      simp only [Fields.ptrDepth] at hf
      cases o with
      | false =>
        have hfs' : s.inFragment = true ∧ rest.inFragment = true := by
          cases s <;> simpa [Fields.inFragment] using hfs
        have hom' : rest.omittables ≤ 1 := by simpa [Fields.omittables] using hom
        simp only [Bool.false_eq_true, if_false, Nat.add_zero] at hf
        simp only [encodeFields, Bool.false_eq_true, false_and, if_false] at henc
        cases h1 : encodeS g s v with
        | none => simp [h1] at henc
        | some a =>
          cases h2 : encodeFields g rest vs with
          | none => simp [h1, h2] at henc
          | some q =>
            obtain ⟨n, c⟩ := q
            simp [h1, h2] at henc
            obtain ⟨rfl, rfl⟩ := henc
            simp only [List.length_append] at hlen hf
            obtain ⟨d1, l1⟩ := hS s v a (c ++ r) d f' hfs'.1 h1 hconf.1 (by omega) (by omega)
            rcases hF rest vs n c r d f' hfs'.2 hom' h2 hconf.2 (by omega) (by omega) with ⟨l2, d2⟩ | ⟨o2, l2, d2⟩
            · left
              refine ⟨by simp [Fields.slots, l2], ?_⟩
              simp only [decodeFields, Bool.false_eq_true, false_and, if_false, List.append_assoc, d1, d2]
            · right
              refine ⟨by simpa [Fields.omittables] using o2, by simp [Fields.slots]; omega, ?_⟩
              simp only [decodeFields, Bool.false_eq_true, false_and, if_false, List.append_assoc, d1, d2]
      | true =>
        -- the one `omitempty` field: a byte slice
        have hsb : s = .bytes ∧ rest.inFragment = true := by
          cases s <;> simp [Fields.inFragment] at hfs ⊢
          exact hfs
        obtain ⟨rfl, hrest⟩ := hsb
        have hom' : rest.omittables = 0 := by simp [Fields.omittables] at hom; omega
        simp only [Schema.ptrDepth, if_true] at hf
        -- the value is a byte string
        cases g with
        | zero => simp [conf] at hconf
        | succ g0 =>
        cases v <;> try (simp [conf] at hconf; done)
        rename_i bb
        by_cases hbe : bb.isEmpty = true
        · -- empty: the field is left out
          have hbn : bb = [] := by cases bb <;> simp_all
          subst hbn
          simp only [encodeFields, isEmptyAt, Val.isEmptyGo, List.isEmpty_nil, and_self, if_true] at henc
          rcases hF rest vs cnt b r d f' hrest (by omega) henc hconf.2 hlen (by omega) with ⟨l2, d2⟩ | ⟨o2, _, _⟩
          · right
            refine ⟨by simp [Fields.omittables, hom'], by simp [Fields.slots, l2], ?_⟩
            simp only [decodeFields, and_self, if_true, d2]
            simp [zeroVal]
          · omega
        · -- present
          have hbe' : bb.isEmpty = false := by simpa using hbe
          simp only [encodeFields, isEmptyAt, Val.isEmptyGo, hbe', Bool.false_eq_true, and_false, if_false] at henc
          cases h1 : encodeS (g0 + 1) .bytes (.bytes bb) with
          | none => simp [h1] at henc
          | some a =>
            cases h2 : encodeFields (g0 + 1) rest vs with
            | none => simp [h1, h2] at henc
            | some q =>
              obtain ⟨n, c⟩ := q
              simp [h1, h2] at henc
              obtain ⟨rfl, rfl⟩ := henc
              simp only [List.length_append] at hlen hf
              obtain ⟨d1, l1⟩ := hS .bytes (.bytes bb) a (c ++ r) d f' (by simp [Schema.inFragment]) h1 hconf.1 (by omega) (by simp [Schema.ptrDepth]; omega)
              rcases hF rest vs n c r d f' hrest (by omega) h2 hconf.2 (by omega) (by omega) with ⟨l2, d2⟩ | ⟨o2, _, _⟩
              · left
                refine ⟨by simp [Fields.slots, l2], ?_⟩
                simp only [decodeFields, Bool.false_eq_true, and_false, if_false, List.append_assoc, d1, d2]
              · omega

theorem rtM_step (ok : CertOracle) (g : Nat) (hS : RtS ok g) (hM : RtM ok g) : RtM ok (g + 1) := by
  intro ks vs ps es r d F acc hks hsk hvs henc hconf hlen hFu hdis hpw
  cases ps with
  | nil =>
    simp [encodeMapPairs] at henc; subst henc
    cases F <;> simp [decodeMapPairs, flatM]
  | cons kv ps =>
    obtain ⟨k, v⟩ := kv
    simp only [encodeMapPairs] at henc
    cases h1 : encodeS g ks k with
    | none => simp [h1] at henc
    | some a =>
      cases h2 : encodeS g vs v with
      | none => simp [h1, h2] at henc
      | some b =>
        cases h3 : encodeMapPairs g ks vs ps with
        | none => simp [h1, h2, h3] at henc
        | some es' =>
          simp [h1, h2, h3] at henc; subst henc
          simp only [confPairs, Bool.and_eq_true] at hconf
          have hsplit : flatM ((a, b) :: es') ++ r = a ++ (b ++ (flatM es' ++ r)) := by simp [flatM, List.append_assoc]
          have hl : (flatM ((a, b) :: es')).length = a.length + b.length + (flatM es').length := by simp [flatM]; omega
          rw [hl] at hlen hFu
          rw [hsplit]
          obtain ⟨F', rfl⟩ : ∃ F', F = F' + 1 := ⟨F - 1, by omega⟩
          have pa := enc_pos ok g ks k a d hks hconf.1.1 h1
          have pb := enc_pos ok g vs v b d hvs hconf.1.2 h2
          obtain ⟨d1, _⟩ := hS ks k a (b ++ (flatM es' ++ r)) d F' hks h1 hconf.1.1 (by omega) (by omega)
          obtain ⟨d2, _⟩ := hS vs v b (flatM es' ++ r) d F' hvs h2 hconf.1.2 (by omega) (by omega)
          have hfresh : ∀ p ∈ acc, p.1.keyEq k = false := fun p hp => hdis p hp (k, v) (by simp)
          have hpw' := (List.pairwise_cons.mp hpw).2
          have hk' := (List.pairwise_cons.mp hpw).1
          have hdis' : ∀ p ∈ acc ++ [(k, v)], ∀ q ∈ ps, p.1.keyEq q.1 = false := by
            intro p hp q hq
            rcases List.mem_append.mp hp with h | h
            · exact hdis p h q (by simp [hq])
            · simp at h; subst h; exact hk' q hq
          have d3 := hM ks vs ps es' r d F' (acc ++ [(k, v)]) hks hsk hvs h3 hconf.2 (by omega) (by omega) hdis' hpw'
          -- the decoded key is not an interface value
          have hna : ∀ a', k ≠ .any a' := by
            intro a' he; subst he
            have := conf_key_not_any ok g d ks a' hsk
            rw [this] at hconf; simp at hconf
          have hok : (match k with | .any a' => a'.comparable | _ => true) = true := by
            cases k <;> simp
            rename_i a'; exact absurd rfl (hna a')
          simp only [List.length_cons, decodeMapPairs, d1, d2, vmapSet_fresh acc k v hfresh, d3]
          simp [hok]

theorem rtS_step (ok : CertOracle) (g : Nat) (hS : RtS ok g) (hL : RtL ok g) (hF : RtF ok g) (hM : RtM ok g) : RtS ok (g + 1) := by
  intro s v b r d f hs henc hconf hlen hf
  obtain ⟨f', rfl⟩ : ∃ f', f = f' + 1 := ⟨f - 1, by omega⟩
  cases s with
  | uint max =>
    simp only [Schema.inFragment, decide_eq_true_eq] at hs
    cases v <;> try (simp [encodeS] at henc; done)
    rename_i n
    simp [encodeS] at henc; subst henc
    simp only [conf, decide_eq_true_eq] at hconf
    obtain ⟨ai, hd, _⟩ := decHead_encHead28 0 n r (by omega) (by omega)
    refine ⟨?_, encHead_length_pos 0 n⟩
    simp only [decodeS, hd]; simp [hconf]
  | int bits =>
    simp only [Schema.inFragment, decide_eq_true_eq] at hs
    cases v <;> try (simp [encodeS] at henc; done)
    rename_i i
    simp only [conf, decide_eq_true_eq] at hconf
    have hp : (2 : Int) ^ (bits - 1) ≤ 2 ^ 63 := by
      have : bits - 1 ≤ 63 := by omega
      exact_mod_cast Nat.pow_le_pow_right (by decide : 1 ≤ 2) this
    have hpn : ((2 ^ (bits - 1) : Nat) : Int) = (2 : Int) ^ (bits - 1) := by norm_cast
    by_cases hi : i ≥ 0
    · simp [encodeS, hi] at henc; subst henc
      have hn : i.toNat < 18446744073709551616 := by omega
      obtain ⟨ai, hd, _⟩ := decHead_encHead28 0 i.toNat r (by omega) hn
      refine ⟨?_, encHead_length_pos 0 _⟩
      simp only [decodeS, hd]
      have h1 : i.toNat < 2 ^ (bits - 1) := by
        have : ((i.toNat : Nat) : Int) < ((2 ^ (bits - 1) : Nat) : Int) := by rw [hpn]; omega
        exact_mod_cast this
      simp [h1]; omega
    · simp [encodeS, hi] at henc; subst henc
      have hn : (-1 - i).toNat < 18446744073709551616 := by omega
      obtain ⟨ai, hd, _⟩ := decHead_encHead28 1 (-1 - i).toNat r (by omega) hn
      refine ⟨?_, encHead_length_pos 1 _⟩
      simp only [decodeS, hd]
      have h1 : (-1 - i).toNat < 2 ^ (bits - 1) := by
        have : (((-1 - i).toNat : Nat) : Int) < ((2 ^ (bits - 1) : Nat) : Int) := by rw [hpn]; omega
        exact_mod_cast this
      simp [h1]; omega
  | bool =>
    cases v <;> try (simp [encodeS] at henc; done)
    rename_i bv
    simp [encodeS] at henc; subst henc
    refine ⟨?_, by simp⟩
    cases bv <;> simp [decodeS, decHead]
  | bytes =>
    cases v <;> try (simp [encodeS] at henc; done)
    rename_i bb
    simp [encodeS] at henc; subst henc
    simp only [conf, decide_eq_true_eq] at hconf
    obtain ⟨ai, hd, _⟩ := decHead_encHead28 2 bb.length (bb ++ r) (by omega) (by simp [maxLen] at hconf; omega)
    refine ⟨?_, by have := encHead_length_pos 2 bb.length; simp; omega⟩
    simp only [decodeS, List.append_assoc, hd]
    simp; omega
  | text =>
    cases v <;> try (simp [encodeS] at henc; done)
    rename_i bb
    simp [encodeS] at henc; subst henc
    simp only [conf, decide_eq_true_eq] at hconf
    obtain ⟨ai, hd, _⟩ := decHead_encHead28 3 bb.length (bb ++ r) (by omega) (by simp [maxLen] at hconf; omega)
    refine ⟨?_, by have := encHead_length_pos 3 bb.length; simp; omega⟩
    simp only [decodeS, List.append_assoc, hd]
    simp; omega
  | fixed n =>
    simp only [Schema.inFragment, decide_eq_true_eq] at hs
    cases v <;> try (simp [encodeS] at henc; done)
    rename_i bb
    simp [encodeS] at henc; subst henc
    simp only [conf, decide_eq_true_eq] at hconf
    obtain ⟨ai, hd, _⟩ := decHead_encHead28 2 bb.length (bb ++ r) (by omega) (by simp [maxLen] at hs; omega)
    refine ⟨?_, by have := encHead_length_pos 2 bb.length; simp; omega⟩
    simp only [decodeS, List.append_assoc, hd]
    simp [hconf]; omega
  | wrapBytes =>
    cases v <;> try (simp [encodeS] at henc; done)
    rename_i bb
    simp [encodeS] at henc; subst henc
    simp only [List.length_append] at hlen
    obtain ⟨ai, hd, hai⟩ := decHead_encHead28 2 bb.length (bb ++ r) (by omega) (by omega)
    refine ⟨?_, by have := encHead_length_pos 2 bb.length; simp; omega⟩
    simp only [decodeS, unwrapBytes, List.append_assoc, hd]
    have : ¬ (ai ≥ 28) := by omega
    simp [this]
  | slice e =>
    simp only [Schema.ptrDepth] at hf
    simp only [Schema.inFragment] at hs
    cases v <;> try (simp [encodeS] at henc; done)
    rename_i vs
    simp only [encodeS] at henc
    cases h1 : encodeList g e vs with
    | none => simp [h1] at henc
    | some c =>
      simp [h1] at henc; subst henc
      simp only [conf, Bool.and_eq_true, decide_eq_true_eq] at hconf
      simp only [List.length_append] at hlen hf
      have hp := encHead_length_pos 4 vs.length
      obtain ⟨d1, l1⟩ := hL e vs c r (d - 1) f' hs h1 hconf.2 (by omega) (by omega)
      obtain ⟨ai, hd, _⟩ := decHead_encHead28 4 vs.length (c ++ r) (by omega) (by have := hconf.1.2; simp [maxLen] at this; omega)
      refine ⟨?_, by simp; omega⟩
      simp only [decodeS, List.append_assoc, hd, d1]
      have : ¬ (vs.length ≥ maxLen ∨ d = 0) := by omega
      simp [this]
  | struct fs =>
    simp only [Schema.ptrDepth] at hf
    simp only [Schema.inFragment, Bool.and_eq_true, decide_eq_true_eq] at hs
    cases v <;> try (simp [encodeS] at henc; done)
    rename_i vs
    simp only [encodeS] at henc
    cases h1 : encodeFields g fs vs with
    | none => simp [h1] at henc
    | some q =>
      obtain ⟨cnt, c⟩ := q
      simp [h1] at henc; subst henc
      simp only [conf, Bool.and_eq_true, decide_eq_true_eq] at hconf
      simp only [List.length_append] at hlen hf
      have hp := encHead_length_pos 4 cnt
      have hsl : fs.slots < 100000 := by have := hs.2.1; simpa [maxLen] using this
      rcases hF fs vs cnt c r (d - 1) f' hs.1 hs.2.2 h1 hconf.2 (by omega) (by omega) with ⟨l1, d1⟩ | ⟨o1, l1, d1⟩
      · subst l1
        obtain ⟨ai, hd, _⟩ := decHead_encHead28 4 fs.slots (c ++ r) (by omega) (by omega)
        refine ⟨?_, by simp; omega⟩
        simp only [decodeS, List.append_assoc, hd, d1]
        have : ¬ (fs.slots ≥ maxLen ∨ d = 0) := by simp [maxLen]; omega
        simp [this]
      · obtain ⟨ai, hd, _⟩ := decHead_encHead28 4 cnt (c ++ r) (by omega) (by omega)
        refine ⟨?_, by simp; omega⟩
        simp only [decodeS, List.append_assoc, hd, d1]
        have h1' : ¬ (cnt ≥ maxLen ∨ d = 0) := by simp [maxLen]; omega
        have h2' : ¬ (cnt = fs.slots) := by omega
        simp [h1', h2', o1, l1]
  | tagAny e =>
    simp only [Schema.ptrDepth] at hf
    simp only [Schema.inFragment] at hs
    cases v <;> try (simp [encodeS] at henc; done)
    rename_i n x
    simp only [encodeS] at henc
    cases h1 : encodeS g e x with
    | none => simp [h1] at henc
    | some c =>
      simp [h1] at henc; subst henc
      simp only [conf, Bool.and_eq_true, decide_eq_true_eq] at hconf
      simp only [List.length_append] at hlen hf
      have hp := encHead_length_pos 6 n
      obtain ⟨d1, l1⟩ := hS e x c r maxDepth f' hs h1 hconf.2 (by omega) (by omega)
      obtain ⟨ai, hd, hai⟩ := decHead_encHead28 6 n (c ++ r) (by omega) hconf.1
      refine ⟨?_, by simp; omega⟩
      simp only [decodeS, List.append_assoc, hd, d1]
      have : ¬ (ai ≥ 28) := by omega
      simp [this]
  | bstr e =>
    simp only [Schema.ptrDepth] at hf
    simp only [Schema.inFragment] at hs
    have hconf' : conf ok g maxDepth e v = true := by
      cases v <;> simpa [conf] using hconf
    cases h1 : encodeS g e v with
    | none => exfalso; cases v <;> simp [encodeS, h1] at henc
    | some c =>
      have hb : b = encHead 2 c.length ++ c := by
        cases v <;> (simp [encodeS, h1] at henc; exact henc.symm)
      subst hb
      simp only [List.length_append] at hlen hf
      have hp := encHead_length_pos 2 c.length
      obtain ⟨d1, l1⟩ := hS e v c [] maxDepth f' hs h1 hconf' (by omega) (by omega)
      obtain ⟨ai, hd, hai⟩ := decHead_encHead28 2 c.length (c ++ r) (by omega) (by omega)
      refine ⟨?_, by simp; omega⟩
      simp only [List.append_nil] at d1
      simp only [decodeS, unwrapBytes, List.append_assoc, hd]
      have : ¬ (ai ≥ 28) := by omega
      simp [this, d1]
  | wrap e =>
    simp only [Schema.ptrDepth] at hf
    simp only [Schema.inFragment] at hs
    have hconf' : conf ok g maxDepth e v = true := by
      cases v <;> simpa [conf] using hconf
    cases h1 : encodeS g e v with
    | none => exfalso; cases v <;> simp [encodeS, h1] at henc
    | some c =>
      have hb : b = encHead 2 c.length ++ c := by
        cases v <;> (simp [encodeS, h1] at henc; exact henc.symm)
      subst hb
      simp only [List.length_append] at hlen hf
      have hp := encHead_length_pos 2 c.length
      obtain ⟨d1, l1⟩ := hS e v c [] maxDepth f' hs h1 hconf' (by omega) (by omega)
      obtain ⟨ai, hd, hai⟩ := decHead_encHead28 2 c.length (c ++ r) (by omega) (by omega)
      refine ⟨?_, by simp; omega⟩
      simp only [List.append_nil] at d1
      simp only [decodeS, unwrapBytes, List.append_assoc, hd]
      have : ¬ (ai ≥ 28) := by omega
      simp [this, d1]
  | ptr e =>
    simp only [Schema.ptrDepth] at hf
    simp only [Schema.inFragment, Bool.and_eq_true] at hs
    cases v <;> try (simp [encodeS] at henc; done)
    · simp [encodeS] at henc; subst henc
      refine ⟨?_, by simp⟩
      simp [decodeS, isNullHead, decHead]
    · rename_i x
      simp only [encodeS] at henc
      simp only [conf] at hconf
      obtain ⟨d1, l1⟩ := hS e x b r d f' hs.1 henc hconf hlen (by omega)
      have hnn := enc_notNull g e x b r hs.2 henc
      refine ⟨?_, l1⟩
      simp only [decodeS, hnn, d1]
  | raw =>
    simp only [Schema.ptrDepth] at hf
    cases v <;> try (simp [encodeS] at henc; done)
    rename_i rb
    simp only [conf] at hconf
    cases hdq : decode (2 * rb.length + 1) d rb with
    | none => simp [hdq] at hconf
    | some q =>
      obtain ⟨x, rr⟩ := q
      cases rr with
      | cons _ _ => simp [hdq] at hconf
      | nil =>
        have hne : rb ≠ [] := by
          intro h0; subst h0; simp [decode, decHead] at hdq
        have hie : rb.isEmpty = false := by cases rb <;> simp_all
        simp [encodeS, hie] at henc
        subst henc
        have h2 := decode_fuel _ d rb x [] hdq f' (by simp; omega)
        have h3 := decode_append f' d rb r x [] h2
        refine ⟨?_, by cases rb <;> simp_all⟩
        simp only [decodeS, h3]; simp
  | tagNum n e =>
    simp only [Schema.ptrDepth] at hf
    simp only [Schema.inFragment, Bool.and_eq_true, decide_eq_true_eq] at hs
    cases v <;> try (simp [encodeS] at henc; done)
    rename_i m x
    simp only [encodeS] at henc
    cases h1 : encodeS g e x with
    | none => simp [h1] at henc
    | some c =>
      simp [h1] at henc; subst henc
      simp only [conf, Bool.and_eq_true, decide_eq_true_eq] at hconf
      obtain ⟨⟨⟨hmn, hd1⟩, hce⟩, hwe⟩ := hconf
      subst hmn
      simp only [List.length_append] at hlen hf
      have hp := encHead_length_pos 6 m
      obtain ⟨f'', rfl⟩ : ∃ f'', f' = f'' + 1 := ⟨f' - 1, by omega⟩
      -- the wrapper's raw pass delimits the item
      obtain ⟨x', dx⟩ := (w_all ok g).1 e x c r maxDepth (d - 1) f'' hs.1 h1 hce hwe (by omega) (by omega)
      obtain ⟨ai, hd, hai⟩ := decHead_encHead28 6 m (c ++ r) (by omega) hs.2
      have hraw : decode (f'' + 1) d (encHead 6 m ++ c ++ r) = some (.tag m x', r) := by
        simp only [decode, List.append_assoc, hd, dx]
        have : ¬ (d = 0) := by omega
        simp [this]
      -- the typed pass on exactly those bytes
      obtain ⟨d1, l1⟩ := hS e x c [] maxDepth f'' hs.1 h1 hce (by omega) (by omega)
      obtain ⟨ai2, hd2, hai2⟩ := decHead_encHead28 6 m c (by omega) hs.2
      simp only [List.append_nil] at d1
      have htyped : decodeS ok (f'' + 1) maxDepth (.tagAny e) (encHead 6 m ++ c) = some (.tag m x, []) := by
        simp only [decodeS, hd2, d1]
        have : ¬ (ai2 ≥ 28) := by omega
        simp [this]
      refine ⟨?_, by simp; omega⟩
      simp only [decodeS, hraw, take_prefix, htyped]
      simp
  | cert =>
    cases v <;> try (simp [encodeS] at henc; done)
    · simp [conf] at hconf
    · rename_i der
      simp [encodeS] at henc; subst henc
      simp only [conf] at hconf
      simp only [List.length_append] at hlen
      obtain ⟨ai, hd, hai⟩ := decHead_encHead28 2 der.length (der ++ r) (by omega) (by omega)
      refine ⟨?_, by have := encHead_length_pos 2 der.length; simp; omega⟩
      simp only [decodeS, unwrapBytes, List.append_assoc, hd]
      have : ¬ (ai ≥ 28) := by omega
      simp [this, hconf]
  | timestamp =>
    simp only [Schema.ptrDepth] at hf
    cases v <;> try (simp [encodeS] at henc; done)
    rename_i z u
    simp only [conf, decide_eq_true_eq] at hconf
    cases z with
    | true =>
      have hu : u = 0 := hconf.1 rfl
      subst hu
      simp [encodeS] at henc; subst henc
      refine ⟨?_, by simp⟩
      simp [decodeS, decHead]
    | false =>
      simp [encodeS] at henc; subst henc
      have hp := encHead_length_pos 6 1
      simp only [List.length_append] at hf
      obtain ⟨f'', rfl⟩ : ∃ f'', f' = f'' + 1 := ⟨f' - 1, by omega⟩
      obtain ⟨ai, hd, hai⟩ := decHead_encHead28 6 1 ((if u ≥ 0 then encHead 0 u.toNat else encHead 1 (-1 - u).toNat) ++ r) (by omega) (by omega)
      have hi := decodeS_int64 ok u r f'' maxDepth ⟨hconf.2.1, hconf.2.2⟩
      refine ⟨?_, by simp; omega⟩
      simp only [List.append_assoc]
      simp only [decodeS, hd, hi]
      have : ¬ (ai ≥ 28) := by omega
      simp [this]
  | label =>
    have hl : labelOK v = true := by cases v <;> simpa [conf] using hconf
    have hb : b = encLabel v := by cases v <;> (simp [encodeS] at henc; exact henc.symm)
    subst hb
    obtain ⟨hke, hks, hkl⟩ := label_facts v hl
    have hpos := encLabel_len_pos v hl
    have d1 := scalar_decode_raw (labelAny v) hks r f' d (by omega)
    have a1 := scalar_decodeAny (labelAny v) hks [] f' maxDepth (by omega)
    simp only [List.append_nil] at a1
    refine ⟨?_, hpos⟩
    rw [hke]
    simp only [decodeS, d1, take_prefix, a1, hkl]
  | mapOf ks vs =>
    simp only [Schema.ptrDepth] at hf
    simp only [Schema.inFragment, Bool.and_eq_true] at hs
    cases v <;> try (simp [encodeS] at henc; done)
    rename_i ps
    simp only [encodeS] at henc
    cases h1 : encodeMapPairs g ks vs ps with
    | none => simp [h1] at henc
    | some es =>
      simp [h1] at henc; subst henc
      simp only [conf, Bool.and_eq_true, decide_eq_true_eq] at hconf
      obtain ⟨⟨⟨hd1, hpl⟩, hcp⟩, hsrt⟩ := hconf
      obtain ⟨hp1, hp2, _⟩ := sorted_facts ks vs hs.1.2 g ps es h1 hsrt
      have hsort : sortByKey es = es := List.mergeSort_of_pairwise hp1
      have hflat : ((sortByKey es).map fun p => p.1 ++ p.2).flatten = flatM es := by rw [hsort]; rfl
      rw [hflat] at hlen hf ⊢
      simp only [List.length_append] at hlen hf
      have hp := encHead_length_pos 5 ps.length
      have d1 := hM ks vs ps es r (d - 1) f' [] hs.1.1 hs.1.2 hs.2 h1 hcp (by omega) (by omega) (by simp) hp2
      obtain ⟨ai, hd, _⟩ := decHead_encHead28 5 ps.length (flatM es ++ r) (by omega) (by simp [maxLen] at hpl; omega)
      refine ⟨?_, by simp; omega⟩
      simp only [decodeS, List.append_assoc, hd, d1]
      have : ¬ (ps.length ≥ maxLen / 2 ∨ d = 0) := by omega
      simp [this]
  | any =>
    cases v <;> try (simp [encodeS] at henc; done)
    rename_i a
    simp [encodeS] at henc; subst henc
    simp only [conf] at hconf
    simp only [Schema.ptrDepth] at hf
    refine ⟨?_, encodeAny_len_pos a⟩
    simp only [decodeS, decodeAny_encodeAny a r d f' hconf (by omega)]
  | coseKey =>
    simp only [Schema.ptrDepth] at hf
    cases v <;> try (simp [encodeS] at henc; done)
    rename_i ps
    simp only [encodeS] at henc
    simp only [conf, Bool.and_eq_true] at hconf
    obtain ⟨⟨hcm, hwm⟩, hkty⟩ := hconf
    have hfr : (Schema.mapOf .label .any).inFragment = true := by decide
    obtain ⟨x', dx⟩ := (w_all ok g).1 (.mapOf .label .any) (.map ps) b r maxDepth d f' hfr henc hcm hwm hlen (by simp [Schema.ptrDepth]; omega)
    obtain ⟨d1, l1⟩ := hS (.mapOf .label .any) (.map ps) b [] maxDepth f' hfr henc hcm hlen (by simp [Schema.ptrDepth]; omega)
    simp only [List.append_nil] at d1
    refine ⟨?_, l1⟩
    simp only [decodeS, dx, take_prefix, d1]
    unfold ktyOK at hkty
    split at hkty <;> simp_all
  | chunk =>
    simp only [Schema.ptrDepth] at hf
    obtain ⟨a, b', ms, rfl⟩ := chunk_shape g v b henc
    simp only [conf, Bool.and_eq_true] at hconf
    obtain ⟨⟨htxt, hcd⟩, hcm⟩ := hconf
    rw [chunk_enc g a b' ms htxt] at henc
    simp at henc; subst henc
    have pl := encodeAny_len_pos (chunkArr a b' ms)
    refine ⟨?_, pl⟩
    -- the raw pass
    have h1 := decodeAny_encodeAny (chunkArr a b' ms) [] d (2 * (encodeAny (chunkArr a b' ms)).length) hcd (Nat.le_refl _)
    simp only [List.append_nil] at h1
    obtain ⟨x, hx⟩ := decodeAny_then_decode _ _ _ _ _ h1
    have hraw : decode f' d (encodeAny (chunkArr a b' ms) ++ r) = some (x, r) := by
      simpa using decode_append _ _ _ r _ _ (hx f' (by omega))
    -- the typed pass on exactly those bytes: a `[]any`
    obtain ⟨f'', rfl⟩ : ∃ f'', f' = f'' + 1 := ⟨f' - 1, by omega⟩
    have hcl : confAnyListB (maxDepth - 1) (.int a :: .int b' :: ms.map chunkAny) = true ∧
        (AnyVal.int a :: .int b' :: ms.map chunkAny).length < maxLen := by
      simp only [chunkArr, confAnyB, Bool.and_eq_true, decide_eq_true_eq] at hcm
      exact ⟨hcm.2, hcm.1.1⟩
    have henc2 : encodeAny (chunkArr a b' ms) = encHead 4 (AnyVal.int a :: .int b' :: ms.map chunkAny).length ++
        encodeAnyList (.int a :: .int b' :: ms.map chunkAny) := by simp [chunkArr, encodeAny]
    have hp := encHead_length_pos 4 (AnyVal.int a :: .int b' :: ms.map chunkAny).length
    have hel := decodeElems_any ok (.int a :: .int b' :: ms.map chunkAny) [] (maxDepth - 1) f'' hcl.1 (by
      rw [henc2] at hf; simp only [List.length_append] at hf; omega)
    simp only [List.append_nil] at hel
    obtain ⟨ai, hd, _⟩ := decHead_encHead28 4 (AnyVal.int a :: .int b' :: ms.map chunkAny).length
      (encodeAnyList (.int a :: .int b' :: ms.map chunkAny)) (by omega) (by have := hcl.2; simp only [maxLen] at this; omega)
    have htyped : decodeS ok (f'' + 1) maxDepth (.slice .any) (encodeAny (chunkArr a b' ms)) =
        some (.list (.any (.int a) :: .any (.int b') :: (ms.map chunkAny).map Val.any), []) := by
      rw [henc2]
      simp only [decodeS, hd, hel]
      have : ¬ ((AnyVal.int a :: .int b' :: ms.map chunkAny).length ≥ maxLen ∨ maxDepth = 0) := by
        have := hcl.2; simp only [maxDepth, maxLen] at this ⊢; omega
      simp [this]
      have := hcl.2; simp only [maxDepth, maxLen, List.length_cons, List.length_map] at this ⊢; omega
    have hb := chunk_texts_back ms htxt
    simp only [decodeS, hraw, take_prefix, htyped, hb.1, hb.2]
    simp
  | _ => simp [Schema.inFragment] at hs


theorem rt_all (ok : CertOracle) (g : Nat) : RtS ok g ∧ RtL ok g ∧ RtF ok g ∧ RtM ok g := by
  induction g with
  | zero =>
    refine ⟨?_, ?_, ?_, ?_⟩
    · intro s v b r d f _ henc; simp [encodeS] at henc
    · intro e vs b r d f _ henc; simp [encodeList] at henc
    · intro fs vs cnt b r d f _ _ henc; simp [encodeFields] at henc
    · intro ks vs ps es r d F acc _ _ _ henc; simp [encodeMapPairs] at henc
  | succ g ih =>
    obtain ⟨hS, hL, hF, hM⟩ := ih
    exact ⟨rtS_step ok g hS hL hF hM, rtL_step ok g hS hL, rtF_step ok g hS hF, rtM_step ok g hS hM⟩

/-- **decode ∘ encode = id on the fragment**, with any following bytes left untouched. -/
theorem decodeS_encodeS (ok : CertOracle) (g : Nat) (s : Schema) (v : Val) (b r : Bytes) (d f : Nat)
    (hs : s.inFragment = true) (henc : encodeS g s v = some b) (hconf : conf ok g d s v = true)
    (hlen : b.length < 18446744073709551616) (hf : 2 * b.length + 1 + s.ptrDepth ≤ f) :
    decodeS ok f d s (b ++ r) = some (v, r) :=
  ((rt_all ok g).1 s v b r d f hs henc hconf hlen hf).1

/-- `cbor.Unmarshal(cbor.Marshal(v)) = v` on the fragment. -/
theorem unmarshalS_marshalS (ok : CertOracle) (s : Schema) (v : Val) (b : Bytes)
    (hs : s.inFragment = true) (hp : s.ptrDepth ≤ 63) (henc : marshalS s v = some b) (hconf : conf ok 10000 maxDepth s v = true)
    (hlen : b.length < 18446744073709551616) : unmarshalS ok s b = some v := by
  have := decodeS_encodeS ok 10000 s v b [] maxDepth (2 * b.length + 64) hs henc hconf hlen (by omega)
  simp only [List.append_nil] at this
  simp [unmarshalS, this]


end Fdo.Cbor
