import Fdo.Cbor.Item
/-
Canonical form: what `Encoder.encodeMap` + `BytewiseLexicalSort` do to a map whose
pairs come in arbitrary (Go map iteration) order — pairs sorted bytewise on the
*encoded* key — and the strict decoder that accepts only shortest-form heads and
strictly ascending keys.
-/
namespace Fdo.Cbor
open Fdo

/-- Insert a pair before the first pair whose encoded key is greater (insertion sort step). -/
def Pairs.insert (k v : Item) : Pairs → Pairs
  | .nil => .cons k v .nil
  | .cons k' v' ps =>
    if bytesLt (encode k') (encode k) then .cons k' v' (Pairs.insert k v ps)
    else .cons k v (.cons k' v' ps)

def Pairs.sort : Pairs → Pairs
  | .nil => .nil
  | .cons k v ps => Pairs.insert k v (Pairs.sort ps)

mutual
/-- Recursively put every map into encoder order. -/
def Item.norm : Item → Item
  | .arr xs => .arr xs.norm
  | .map ps => .map (Pairs.sort ps.norm)
  | .tag t x => .tag t x.norm
  | x => x
def Items.norm : Items → Items
  | .nil => .nil
  | .cons x xs => .cons x.norm xs.norm
def Pairs.norm : Pairs → Pairs
  | .nil => .nil
  | .cons k v ps => .cons k.norm v.norm ps.norm
end

/-- What `cbor.Marshal` writes for the Go value denoted by `x` (maps are unordered in Go). -/
def marshal (x : Item) : Bytes := encode x.norm

/-- Keys (as encoded) ascend weakly. -/
def Pairs.Sorted : Pairs → Prop
  | .nil => True
  | .cons _ _ .nil => True
  | .cons k v (.cons k' v' ps) => bytesLt (encode k') (encode k) = false ∧ Pairs.Sorted (.cons k' v' ps)

/-- Keys (as encoded) ascend strictly: canonical maps. -/
def Pairs.StrictSorted : Pairs → Bool
  | .nil => true
  | .cons _ _ .nil => true
  | .cons k v (.cons k' v' ps) => bytesLt (encode k) (encode k') && Pairs.StrictSorted (.cons k' v' ps)

/-- Strict head: shortest form only, no reserved additional info. -/
def decHeadStrict : Bytes → Option (Nat × Nat × Nat × Bytes)
  | [] => none
  | b :: r =>
    let mt := b.toNat / 32
    let ai := b.toNat % 32
    if ai < 24 then some (mt, ai, ai, r)
    else if ai ≥ 28 then none
    else if r.length < argWidth ai then none
    else
      let arg := beNat (r.take (argWidth ai))
      let lo := if ai = 24 then 24 else if ai = 25 then 256 else if ai = 26 then 65536 else 4294967296
      if arg < lo then none else some (mt, ai, arg, r.drop (argWidth ai))

mutual
/-- Decoder for canonical input only (RFC 8949 §4.2.1 core deterministic encoding as far as
this library's data model goes): shortest heads, strictly ascending map keys, major type 7
restricted to one-byte simple values. -/
def decodeStrict : Nat → Bytes → Option (Item × Bytes)
  | 0, _ => none
  | f+1, bs =>
    match decHeadStrict bs with
    | none => none
    | some (mt, ai, arg, r) =>
      if mt = 0 then some (.uint arg, r)
      else if mt = 1 then some (.nint arg, r)
      else if mt = 2 then
        if arg ≥ maxLen ∨ r.length < arg then none else some (.bstr (r.take arg), r.drop arg)
      else if mt = 3 then
        if arg ≥ maxLen ∨ r.length < arg then none else some (.tstr (r.take arg), r.drop arg)
      else if mt = 4 then
        if arg ≥ maxLen then none else
        match decodeStrictItems f arg r with
        | none => none
        | some (xs, r') => some (.arr xs, r')
      else if mt = 5 then
        if 2 * arg ≥ maxLen then none else
        match decodeStrictPairs f arg r with
        | none => none
        | some (ps, r') => if ps.StrictSorted then some (.map ps, r') else none
      else if mt = 6 then
        match decodeStrict f r with
        | none => none
        | some (x, r') => some (.tag arg x, r')
      else if ai < 24 then some (.simple ai, r) else none
def decodeStrictItems : Nat → Nat → Bytes → Option (Items × Bytes)
  | _, 0, bs => some (.nil, bs)
  | 0, _+1, _ => none
  | f+1, n+1, bs =>
    match decodeStrict f bs with
    | none => none
    | some (x, r) =>
      match decodeStrictItems f n r with
      | none => none
      | some (xs, r') => some (.cons x xs, r')
def decodeStrictPairs : Nat → Nat → Bytes → Option (Pairs × Bytes)
  | _, 0, bs => some (.nil, bs)
  | 0, _+1, _ => none
  | f+1, n+1, bs =>
    match decodeStrict f bs with
    | none => none
    | some (k, r) =>
      match decodeStrict f r with
      | none => none
      | some (v, r') =>
        match decodeStrictPairs f n r' with
        | none => none
        | some (ps, r'') => some (.cons k v ps, r'')
end

end Fdo.Cbor
