import Fdo.Cbor.Item
namespace Fdo.Cbor
open Fdo

theorem toNat_ofNat_lt (n : Nat) (h : n < 256) : (UInt8.ofNat n).toNat = n := by
  simp [Nat.mod_eq_of_lt h]

theorem take_append_len {α} (a b : List α) (n : Nat) (h : a.length = n) : (a ++ b).take n = a := by
  subst h; simp

theorem drop_append_len {α} (a b : List α) (n : Nat) (h : a.length = n) : (a ++ b).drop n = b := by
  subst h; simp

theorem decHead_wide (mt ai w n : Nat) (r : Bytes) (hmt : mt < 8) (hai : 24 ≤ ai) (hai' : ai < 28)
    (hw : argWidth ai = w) (hn : n < 256 ^ w) :
    decHead (UInt8.ofNat (mt * 32 + ai) :: (natBE w n ++ r)) = some (mt, ai, n, r) := by
  have hb : (UInt8.ofNat (mt * 32 + ai)).toNat = mt * 32 + ai := toNat_ofNat_lt _ (by omega)
  have h1 : (mt * 32 + ai) / 32 = mt := by omega
  have h2 : (mt * 32 + ai) % 32 = ai := by omega
  simp only [decHead, hb, h1, h2, hw]
  rw [if_neg (by omega)]
  rw [if_neg (by omega)]
  rw [if_neg (by simp)]
  rw [take_append_len _ _ _ (natBE_length w n), drop_append_len _ _ _ (natBE_length w n), beNat_natBE w n hn]

theorem decHead_encHead (mt n : Nat) (r : Bytes) (hmt : mt < 8) (hn : n < 18446744073709551616) :
    ∃ ai, decHead (encHead mt n ++ r) = some (mt, ai, n, r) := by
  unfold encHead
  split
  · refine ⟨n, ?_⟩
    have hb : (UInt8.ofNat (mt * 32 + n)).toNat = mt * 32 + n := toNat_ofNat_lt _ (by omega)
    have h1 : (mt * 32 + n) / 32 = mt := by omega
    have h2 : (mt * 32 + n) % 32 = n := by omega
    simp only [List.cons_append, List.nil_append, decHead, hb, h1, h2]
    rw [if_pos (by omega)]
  · split
    · exact ⟨24, decHead_wide mt 24 1 n r hmt (by omega) (by omega) rfl (by simpa using ‹n < 256›)⟩
    · split
      · exact ⟨25, decHead_wide mt 25 2 n r hmt (by omega) (by omega) rfl (by simpa using ‹n < 65536›)⟩
      · split
        · exact ⟨26, decHead_wide mt 26 4 n r hmt (by omega) (by omega) rfl (by simpa using ‹n < 4294967296›)⟩
        · exact ⟨27, decHead_wide mt 27 8 n r hmt (by omega) (by omega) rfl (by simpa using hn)⟩


theorem Item.size_pos (x : Item) : 0 < x.size := by
  cases x <;> simp [Item.size]

mutual
theorem decode_encode (x : Item) (hx : x.WF) (r : Bytes) (f d : Nat) (hf : x.size ≤ f) (hd : x.depth ≤ d) :
    decode f d (encode x ++ r) = some (x, r) := by
  match f, x with
  | 0, x => have := Item.size_pos x; omega
  | f+1, .uint n =>
    obtain ⟨ai, h⟩ := decHead_encHead 0 n r (by omega) hx
    simp [decode, encode, h]
  | f+1, .nint n =>
    obtain ⟨ai, h⟩ := decHead_encHead 1 n r (by omega) hx
    simp [decode, encode, h]
  | f+1, .bstr b =>
    simp only [Item.WF, maxLen] at hx
    obtain ⟨ai, h⟩ := decHead_encHead 2 b.length (b ++ r) (by omega) (by omega)
    simp only [decode, encode, List.append_assoc, h, maxLen]
    simp; omega
  | f+1, .tstr b =>
    simp only [Item.WF, maxLen] at hx
    obtain ⟨ai, h⟩ := decHead_encHead 3 b.length (b ++ r) (by omega) (by omega)
    simp only [decode, encode, List.append_assoc, h, maxLen]
    simp; omega
  | f+1, .arr xs =>
    simp only [Item.WF, maxLen] at hx
    obtain ⟨ai, h⟩ := decHead_encHead 4 xs.length (encodeItems xs ++ r) (by omega) (by omega)
    simp only [Item.depth] at hd
    have ih := decodeItems_encode xs hx.2 r f (d - 1) (by simp [Item.size] at hf; omega) (by omega)
    simp only [decode, encode, List.append_assoc, h, maxLen, ih]
    simp; omega
  | f+1, .map ps =>
    simp only [Item.WF, maxLen] at hx
    obtain ⟨ai, h⟩ := decHead_encHead 5 ps.length (encodePairs ps ++ r) (by omega) (by omega)
    simp only [Item.depth] at hd
    have ih := decodePairs_encode ps hx.2 r f (d - 1) (by simp [Item.size] at hf; omega) (by omega)
    have e1 : (2 * ps.length) % 18446744073709551616 = 2 * ps.length := Nat.mod_eq_of_lt (by omega)
    have e2 : 2 * ps.length / 2 = ps.length := by omega
    simp only [decode, encode, List.append_assoc, h, maxLen, e1, e2, ih]
    simp; omega
  | f+1, .tag t x =>
    simp only [Item.WF] at hx
    obtain ⟨ai, h⟩ := decHead_encHead 6 t (encode x ++ r) (by omega) hx.1
    simp only [Item.depth] at hd
    have ih := decode_encode x hx.2 r f (d - 1) (by simp [Item.size] at hf; omega) (by omega)
    simp only [decode, encode, List.append_assoc, h, ih]
    simp; omega
  | f+1, .simple v =>
    simp only [Item.WF] at hx
    have hb : (UInt8.ofNat (7 * 32 + v)).toNat = 7 * 32 + v := toNat_ofNat_lt _ (by omega)
    have h1 : (7 * 32 + v) / 32 = 7 := by omega
    have h2 : (7 * 32 + v) % 32 = v := by omega
    simp only [decode, encode, List.cons_append, List.nil_append, decHead, hb, h1, h2]
    simp [hx]
  | f+1, .m7 ai arg =>
    simp only [Item.WF] at hx
    have hd := decHead_wide 7 ai _ arg r (by omega) hx.1 hx.2.1 rfl hx.2.2
    simp only [decode, encode, List.cons_append, hd]
    simp; omega
theorem decodeItems_encode (xs : Items) (hx : xs.WF) (r : Bytes) (f d : Nat) (hf : xs.size ≤ f) (hd : xs.depth ≤ d) :
    decodeItems f d xs.length (encodeItems xs ++ r) = some (xs, r) := by
  match f, xs with
  | f, .nil => cases f <;> simp [decodeItems, encodeItems, Items.length]
  | 0, .cons x xs => simp [Items.size] at hf
  | f+1, .cons x xs =>
    simp only [Items.WF] at hx
    simp only [Items.size] at hf
    simp only [Items.depth] at hd
    have h1 := decode_encode x hx.1 (encodeItems xs ++ r) f d (by omega) (by omega)
    have h2 := decodeItems_encode xs hx.2 r f d (by omega) (by omega)
    simp [decodeItems, encodeItems, Items.length, h1, h2]
theorem decodePairs_encode (ps : Pairs) (hx : ps.WF) (r : Bytes) (f d : Nat) (hf : ps.size ≤ f) (hd : ps.depth ≤ d) :
    decodePairs f d ps.length (encodePairs ps ++ r) = some (ps, r) := by
  match f, ps with
  | f, .nil => cases f <;> simp [decodePairs, encodePairs, Pairs.length]
  | 0, .cons k v ps => simp [Pairs.size] at hf
  | f+1, .cons k v ps =>
    simp only [Pairs.WF] at hx
    simp only [Pairs.size] at hf
    simp only [Pairs.depth] at hd
    have h1 := decode_encode k hx.1 (encode v ++ (encodePairs ps ++ r)) f d (by omega) (by omega)
    have h2 := decode_encode v hx.2.1 (encodePairs ps ++ r) f d (by omega) (by omega)
    have h3 := decodePairs_encode ps hx.2.2 r f d (by omega) (by omega)
    simp [decodePairs, encodePairs, Pairs.length, h1, h2, h3]
end

theorem decHead_append (b t : Bytes) {mt ai arg : Nat} {r : Bytes}
    (h : decHead b = some (mt, ai, arg, r)) : decHead (b ++ t) = some (mt, ai, arg, r ++ t) := by
  cases b with
  | nil => simp [decHead] at h
  | cons x xs =>
    simp only [decHead, List.cons_append] at h ⊢
    split at h
    · rename_i h24
      simp only [Option.some.injEq, Prod.mk.injEq] at h
      obtain ⟨h1, h2, h3, h4⟩ := h
      rw [if_pos h24]; subst h1 h2 h3 h4; rfl
    · rename_i h24
      rw [if_neg h24]
      split at h
      · simp at h
      rename_i h28
      rw [if_neg h28]
      split at h
      · simp at h
      · rename_i hlen
        simp only [Option.some.injEq, Prod.mk.injEq] at h
        obtain ⟨h1, h2, h3, h4⟩ := h
        have hl : argWidth (x.toNat % 32) ≤ xs.length := by omega
        rw [if_neg (by simp; omega)]
        rw [List.take_append_of_le_length hl, List.drop_append_of_le_length hl]
        subst h1 h2 h3 h4; rfl

/-- The result of a string-like branch is stable under appending. -/
theorem str_append (arg : Nat) (r0 t : Bytes) (mk : Bytes → Item) (v : Item) (r : Bytes)
    (h : (if arg ≥ maxLen ∨ r0.length < arg then none else some (mk (r0.take arg), r0.drop arg)) = some (v, r)) :
    (if arg ≥ maxLen ∨ (r0 ++ t).length < arg then none else some (mk ((r0 ++ t).take arg), (r0 ++ t).drop arg)) = some (v, r ++ t) := by
  split at h
  · simp at h
  · rename_i hc
    have hl : arg ≤ r0.length := by omega
    rw [if_neg (by simp; omega)]
    simp at h
    rw [List.take_append_of_le_length hl, List.drop_append_of_le_length hl]
    simp [h]

mutual
theorem decode_append (f d : Nat) (b t : Bytes) (v : Item) (r : Bytes)
    (h : decode f d b = some (v, r)) : decode f d (b ++ t) = some (v, r ++ t) := by
  match f with
  | 0 => simp [decode] at h
  | f+1 =>
    unfold decode at h ⊢
    cases hd : decHead b with
    | none => simp [hd] at h
    | some q =>
      obtain ⟨mt, ai, arg, r0⟩ := q
      rw [decHead_append b t hd]
      simp only [hd] at h
      simp only
      by_cases hm0 : mt = 0
      · simp only [hm0, if_true] at h ⊢; simp at h; simp [h]
      simp only [hm0, if_false] at h ⊢
      by_cases hm1 : mt = 1
      · simp only [hm1, if_true] at h ⊢; simp at h; simp [h]
      simp only [hm1, if_false] at h ⊢
      by_cases hm2 : mt = 2
      · simp only [hm2, if_true] at h ⊢; exact str_append arg r0 t .bstr v r h
      simp only [hm2, if_false] at h ⊢
      by_cases hm3 : mt = 3
      · simp only [hm3, if_true] at h ⊢; exact str_append arg r0 t .tstr v r h
      simp only [hm3, if_false] at h ⊢
      by_cases hm4 : mt = 4
      · simp only [hm4, if_true] at h ⊢
        split at h
        · simp at h
        · rename_i hc
          rw [if_neg hc]
          cases hi : decodeItems f (d - 1) arg r0 with
          | none => simp [hi] at h
          | some q =>
            obtain ⟨xs, r1⟩ := q
            simp only [hi] at h
            rw [decodeItems_append f (d - 1) arg r0 t xs r1 hi]
            simp at h; simp [h]
      simp only [hm4, if_false] at h ⊢
      by_cases hm5 : mt = 5
      · simp only [hm5, if_true] at h ⊢
        split at h
        · simp at h
        · rename_i hc
          rw [if_neg hc]
          cases hi : decodePairs f (d - 1) arg r0 with
          | none => simp [hi] at h
          | some q =>
            obtain ⟨xs, r1⟩ := q
            simp only [hi] at h
            rw [decodePairs_append f (d - 1) _ r0 t xs r1 hi]
            simp at h; simp [h]
      simp only [hm5, if_false] at h ⊢
      by_cases hm6 : mt = 6
      · simp only [hm6, if_true] at h ⊢
        split at h
        · simp at h
        · rename_i hc
          rw [if_neg hc]
          cases hi : decode f (d - 1) r0 with
          | none => simp [hi] at h
          | some q =>
            obtain ⟨x, r1⟩ := q
            simp only [hi] at h
            rw [decode_append f (d - 1) r0 t x r1 hi]
            simp at h; simp [h]
      simp only [hm6, if_false] at h ⊢
      split at h <;> simp at h <;> simp [*]
theorem decodeItems_append (f d n : Nat) (b t : Bytes) (xs : Items) (r : Bytes)
    (h : decodeItems f d n b = some (xs, r)) : decodeItems f d n (b ++ t) = some (xs, r ++ t) := by
  match f, n with
  | f, 0 => cases f <;> (simp [decodeItems] at h ⊢; simp [h])
  | 0, n+1 => simp [decodeItems] at h
  | f+1, n+1 =>
    unfold decodeItems at h ⊢
    cases h1 : decode f d b with
    | none => simp [h1] at h
    | some q =>
      obtain ⟨x, r1⟩ := q
      simp only [h1] at h
      rw [decode_append f d b t x r1 h1]
      cases h2 : decodeItems f d n r1 with
      | none => simp [h2] at h
      | some q =>
        obtain ⟨ys, r2⟩ := q
        simp only [h2] at h
        simp only
        rw [decodeItems_append f d n r1 t ys r2 h2]
        simp at h; simp [h]
theorem decodePairs_append (f d n : Nat) (b t : Bytes) (ps : Pairs) (r : Bytes)
    (h : decodePairs f d n b = some (ps, r)) : decodePairs f d n (b ++ t) = some (ps, r ++ t) := by
  match f, n with
  | f, 0 => cases f <;> (simp [decodePairs] at h ⊢; simp [h])
  | 0, n+1 => simp [decodePairs] at h
  | f+1, n+1 =>
    unfold decodePairs at h ⊢
    cases h1 : decode f d b with
    | none => simp [h1] at h
    | some q =>
      obtain ⟨k, r1⟩ := q
      simp only [h1] at h
      rw [decode_append f d b t k r1 h1]
      cases h2 : decode f d r1 with
      | none => simp [h2] at h
      | some q =>
        obtain ⟨v, r2⟩ := q
        simp only [h2] at h
        simp only
        rw [decode_append f d r1 t v r2 h2]
        cases h3 : decodePairs f d n r2 with
        | none => simp [h3] at h
        | some q =>
          obtain ⟨ys, r3⟩ := q
          simp only [h3] at h
          simp only
          rw [decodePairs_append f d n r2 t ys r3 h3]
          simp at h; simp [h]
end

theorem decHead_split (b : Bytes) {mt ai arg : Nat} {r : Bytes}
    (h : decHead b = some (mt, ai, arg, r)) :
    ∃ hd, b = hd ++ r ∧ 1 ≤ hd.length ∧ ∀ t, decHead (hd ++ t) = some (mt, ai, arg, t) := by
  cases b with
  | nil => simp [decHead] at h
  | cons x xs =>
    simp only [decHead] at h
    split at h
    · rename_i h24
      simp only [Option.some.injEq, Prod.mk.injEq] at h
      obtain ⟨h1, h2, h3, h4⟩ := h
      refine ⟨[x], by simp [h4], by simp, ?_⟩
      intro t
      simp only [decHead, List.cons_append, List.nil_append]
      rw [if_pos h24]; subst h1 h2 h3; rfl
    · rename_i h24
      split at h
      · simp at h
      rename_i h28
      split at h
      · simp at h
      · rename_i hlen
        simp only [Option.some.injEq, Prod.mk.injEq] at h
        obtain ⟨h1, h2, h3, h4⟩ := h
        have hl : argWidth (x.toNat % 32) ≤ xs.length := by omega
        refine ⟨x :: xs.take (argWidth (x.toNat % 32)), ?_, by simp, ?_⟩
        · rw [← h4]; simp
        · intro t
          simp only [decHead, List.cons_append]
          rw [if_neg h24, if_neg h28]
          have hlen' : (xs.take (argWidth (x.toNat % 32))).length = argWidth (x.toNat % 32) := by
            simp; omega
          rw [if_neg (by simp; omega)]
          rw [take_append_len _ _ _ hlen', drop_append_len _ _ _ hlen']
          subst h1 h2 h3; rfl

theorem str_split (arg : Nat) (r0 : Bytes) (mk : Bytes → Item) (v : Item) (r : Bytes)
    (h : (if arg ≥ maxLen ∨ r0.length < arg then none else some (mk (r0.take arg), r0.drop arg)) = some (v, r)) :
    ∃ q, r0 = q ++ r ∧
      (if arg ≥ maxLen ∨ q.length < arg then none else some (mk (q.take arg), q.drop arg)) = some (v, []) := by
  split at h
  · simp at h
  · rename_i hc
    have hl : arg ≤ r0.length := by omega
    simp at h
    refine ⟨r0.take arg, ?_, ?_⟩
    · rw [← h.2]; simp
    · rw [if_neg (by simp; omega)]
      have e1 : (r0.take arg).take arg = r0.take arg := by rw [List.take_take, Nat.min_self]
      have e2 : (r0.take arg).drop arg = [] := by
        apply List.drop_eq_nil_of_le; simp only [List.length_take]; omega
      rw [e1, e2, h.1]


mutual
theorem decode_split (f d : Nat) (b : Bytes) (v : Item) (r : Bytes)
    (h : decode f d b = some (v, r)) : ∃ p, b = p ++ r ∧ 1 ≤ p.length ∧ decode f d p = some (v, []) := by
  match f with
  | 0 => simp [decode] at h
  | f+1 =>
    unfold decode at h
    cases hd : decHead b with
    | none => simp [hd] at h
    | some q =>
      obtain ⟨mt, ai, arg, r0⟩ := q
      obtain ⟨hb, hbe, hbl, hbd⟩ := decHead_split b hd
      simp only [hd] at h
      by_cases hm0 : mt = 0
      · simp only [hm0, if_true] at h; simp at h
        refine ⟨hb, by rw [hbe, h.2], hbl, ?_⟩
        have := hbd []; simp at this
        unfold decode; simp [this, hm0, h.1]
      simp only [hm0, if_false] at h
      by_cases hm1 : mt = 1
      · simp only [hm1, if_true] at h; simp at h
        refine ⟨hb, by rw [hbe, h.2], hbl, ?_⟩
        have := hbd []; simp at this
        unfold decode; simp [this, hm1, h.1]
      simp only [hm1, if_false] at h
      by_cases hm2 : mt = 2
      · simp only [hm2, if_true] at h
        obtain ⟨q, hq, hq2⟩ := str_split arg r0 .bstr v r h
        refine ⟨hb ++ q, by rw [hbe, hq]; simp, by simp; omega, ?_⟩
        unfold decode; rw [hbd q]; simp only [hm2]; simpa using hq2
      simp only [hm2, if_false] at h
      by_cases hm3 : mt = 3
      · simp only [hm3, if_true] at h
        obtain ⟨q, hq, hq2⟩ := str_split arg r0 .tstr v r h
        refine ⟨hb ++ q, by rw [hbe, hq]; simp, by simp; omega, ?_⟩
        unfold decode; rw [hbd q]; simp only [hm3]; simpa using hq2
      simp only [hm3, if_false] at h
      by_cases hm4 : mt = 4
      · simp only [hm4, if_true] at h
        split at h
        · simp at h
        · rename_i hc
          cases hi : decodeItems f (d - 1) arg r0 with
          | none => simp [hi] at h
          | some q =>
            obtain ⟨xs, r1⟩ := q
            simp only [hi] at h; simp at h
            obtain ⟨q, hq, hq2⟩ := decodeItems_split f (d - 1) arg r0 xs r1 hi
            refine ⟨hb ++ q, by rw [hbe, hq, h.2]; simp, by simp; omega, ?_⟩
            unfold decode; rw [hbd q]; simp only [hm4]; simp [hc, hq2, h.1]
      simp only [hm4, if_false] at h
      by_cases hm5 : mt = 5
      · simp only [hm5, if_true] at h
        split at h
        · simp at h
        · rename_i hc
          cases hi : decodePairs f (d - 1) arg r0 with
          | none => simp [hi] at h
          | some q =>
            obtain ⟨xs, r1⟩ := q
            simp only [hi] at h; simp at h
            obtain ⟨q, hq, hq2⟩ := decodePairs_split f (d - 1) _ r0 xs r1 hi
            refine ⟨hb ++ q, by rw [hbe, hq, h.2]; simp, by simp; omega, ?_⟩
            unfold decode; rw [hbd q]; simp only [hm5]; simp [hc, hq2, h.1]
      simp only [hm5, if_false] at h
      by_cases hm6 : mt = 6
      · simp only [hm6, if_true] at h
        split at h
        · simp at h
        · rename_i hc
          cases hi : decode f (d - 1) r0 with
          | none => simp [hi] at h
          | some q =>
            obtain ⟨x, r1⟩ := q
            simp only [hi] at h; simp at h
            obtain ⟨q, hq, _, hq2⟩ := decode_split f (d - 1) r0 x r1 hi
            refine ⟨hb ++ q, by rw [hbe, hq, h.2]; simp, by simp; omega, ?_⟩
            unfold decode; rw [hbd q]; simp only [hm6]; simp [hc, hq2, h.1]
      simp only [hm6, if_false] at h
      have := hbd []; simp at this
      split at h <;> simp at h <;>
        (refine ⟨hb, by rw [hbe, h.2], hbl, ?_⟩; unfold decode; simp [this, *])
theorem decodeItems_split (f d n : Nat) (b : Bytes) (xs : Items) (r : Bytes)
    (h : decodeItems f d n b = some (xs, r)) : ∃ p, b = p ++ r ∧ decodeItems f d n p = some (xs, []) := by
  match f, n with
  | f, 0 => cases f <;> (simp [decodeItems] at h; exact ⟨[], by simp [h], by simp [decodeItems, h]⟩)
  | 0, n+1 => simp [decodeItems] at h
  | f+1, n+1 =>
    unfold decodeItems at h
    cases h1 : decode f d b with
    | none => simp [h1] at h
    | some q =>
      obtain ⟨x, r1⟩ := q
      simp only [h1] at h
      cases h2 : decodeItems f d n r1 with
      | none => simp [h2] at h
      | some q =>
        obtain ⟨ys, r2⟩ := q
        simp only [h2] at h; simp at h
        obtain ⟨p1, e1, _, d1⟩ := decode_split f d b x r1 h1
        obtain ⟨p2, e2, d2⟩ := decodeItems_split f d n r1 ys r2 h2
        refine ⟨p1 ++ p2, by rw [e1, e2, h.2]; simp, ?_⟩
        unfold decodeItems
        rw [decode_append f d p1 p2 x [] d1]; simp [d2, h.1]
theorem decodePairs_split (f d n : Nat) (b : Bytes) (ps : Pairs) (r : Bytes)
    (h : decodePairs f d n b = some (ps, r)) : ∃ p, b = p ++ r ∧ decodePairs f d n p = some (ps, []) := by
  match f, n with
  | f, 0 => cases f <;> (simp [decodePairs] at h; exact ⟨[], by simp [h], by simp [decodePairs, h]⟩)
  | 0, n+1 => simp [decodePairs] at h
  | f+1, n+1 =>
    unfold decodePairs at h
    cases h1 : decode f d b with
    | none => simp [h1] at h
    | some q =>
      obtain ⟨k, r1⟩ := q
      simp only [h1] at h
      cases h2 : decode f d r1 with
      | none => simp [h2] at h
      | some q =>
        obtain ⟨v, r2⟩ := q
        simp only [h2] at h
        cases h3 : decodePairs f d n r2 with
        | none => simp [h3] at h
        | some q =>
          obtain ⟨ys, r3⟩ := q
          simp only [h3] at h; simp at h
          obtain ⟨p1, e1, _, d1⟩ := decode_split f d b k r1 h1
          obtain ⟨p2, e2, _, d2⟩ := decode_split f d r1 v r2 h2
          obtain ⟨p3, e3, d3⟩ := decodePairs_split f d n r2 ys r3 h3
          refine ⟨p1 ++ (p2 ++ p3), by rw [e1, e2, e3, h.2]; simp, ?_⟩
          unfold decodePairs
          rw [decode_append f d p1 (p2 ++ p3) k [] d1]; simp only [List.nil_append]
          rw [decode_append f d p2 p3 v [] d2]; simp [d3, h.1]
end
end Fdo.Cbor
