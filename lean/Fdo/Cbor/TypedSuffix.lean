import Fdo.Cbor.Typed
import Fdo.Cbor.Proofs
/-
Exact consumption for *every* decode target of the typed codec: whatever `decodeS` returns as the
unread rest is a suffix of its input (the decoder never re-orders, duplicates or invents bytes, and
leaves the stream positioned right after what it consumed).
-/
namespace Fdo.Cbor
open Fdo

/-- `r` is what remains of `b` after reading a prefix -/
def Suf (r b : Bytes) : Prop := ∃ p, b = p ++ r

theorem Suf.refl (b : Bytes) : Suf b b := ⟨[], rfl⟩
theorem Suf.trans {a b c : Bytes} (h1 : Suf a b) (h2 : Suf b c) : Suf a c := by
  obtain ⟨p, rfl⟩ := h1; obtain ⟨q, rfl⟩ := h2; exact ⟨q ++ p, by simp⟩
theorem Suf.drop (n : Nat) (b : Bytes) : Suf (b.drop n) b := ⟨b.take n, (List.take_append_drop n b).symm⟩
theorem Suf.cons (x : UInt8) (b : Bytes) : Suf b (x :: b) := ⟨[x], rfl⟩

theorem decHead_suf {b : Bytes} {mt ai arg : Nat} {r : Bytes} (h : decHead b = some (mt, ai, arg, r)) : Suf r b := by
  obtain ⟨hd, he, _, _⟩ := decHead_split b h
  exact ⟨hd, he⟩

theorem decode_suf {f d : Nat} {b : Bytes} {v : Item} {r : Bytes} (h : decode f d b = some (v, r)) : Suf r b := by
  obtain ⟨p, he, _, _⟩ := decode_split f d b v r h
  exact ⟨p, he⟩

theorem isNullHead_suf {b r : Bytes} (h : isNullHead b = some r) : Suf r b := by
  unfold isNullHead at h
  split at h
  · rename_i mt ai _ r' hd
    split at h
    · simp at h; subst h; exact decHead_suf hd
    · simp at h
  · simp at h

theorem unwrapBytes_suf {b r : Bytes} {n : Nat} (h : unwrapBytes b = some (some (n, r))) : Suf r b := by
  unfold unwrapBytes at h
  split at h
  · simp at h
  · rename_i mt ai arg r' hd
    split at h
    · simp at h
    · split at h
      · simp at h; rw [← h.2]; exact decHead_suf hd
      · simp at h

/-! ### `any` targets -/

mutual
theorem decodeAny_suf (f d : Nat) (b : Bytes) (v : AnyVal) (r : Bytes) (h : decodeAny f d b = some (v, r)) : Suf r b := by
  match f with
  | 0 => simp [decodeAny] at h
  | f+1 =>
    unfold decodeAny at h
    cases hd : decHead b with
    | none => simp [hd] at h
    | some q =>
      obtain ⟨mt, ai, arg, r0⟩ := q
      have h0 := decHead_suf hd
      simp only [hd] at h
      by_cases m0 : mt = 0
      · simp only [m0, if_true] at h; split at h <;> simp at h; rw [← h.2]; exact h0
      simp only [m0, if_false] at h
      by_cases m1 : mt = 1
      · simp only [m1, if_true] at h; split at h <;> simp at h; rw [← h.2]; exact h0
      simp only [m1, if_false] at h
      by_cases m2 : mt = 2
      · simp only [m2, if_true] at h; split at h <;> simp at h; rw [← h.2]; exact (Suf.drop _ _).trans h0
      simp only [m2, if_false] at h
      by_cases m3 : mt = 3
      · simp only [m3, if_true] at h; split at h <;> simp at h; rw [← h.2]; exact (Suf.drop _ _).trans h0
      simp only [m3, if_false] at h
      by_cases m4 : mt = 4
      · simp only [m4, if_true] at h
        split at h
        · simp at h
        · cases hi : decodeAnys f (d - 1) arg r0 with
          | none => simp [hi] at h
          | some q => simp [hi] at h; rw [← h.2]; exact (decodeAnys_suf f (d - 1) arg r0 q.1 q.2 hi).trans h0
      simp only [m4, if_false] at h
      by_cases m5 : mt = 5
      · simp only [m5, if_true] at h
        split at h
        · simp at h
        · cases hi : decodeAnyPairs f (d - 1) arg [] r0 with
          | none => simp [hi] at h
          | some q => simp [hi] at h; rw [← h.2]; exact (decodeAnyPairs_suf f (d - 1) arg [] r0 q.1 q.2 hi).trans h0
      simp only [m5, if_false] at h
      by_cases m6 : mt = 6
      · simp only [m6, if_true] at h
        split at h
        · simp at h
        · cases hi : decode f (d - 1) r0 with
          | none => simp [hi] at h
          | some q => simp [hi] at h; rw [← h.2]; exact (decode_suf hi).trans h0
      simp only [m6, if_false] at h
      repeat (split at h <;> try (simp at h; rw [← h.2]; exact h0))
      simp at h
theorem decodeAnys_suf (f d n : Nat) (b : Bytes) (vs : List AnyVal) (r : Bytes) (h : decodeAnys f d n b = some (vs, r)) : Suf r b := by
  match f, n with
  | f, 0 => cases f <;> (simp [decodeAnys] at h; rw [← h.2]; exact Suf.refl _)
  | 0, n+1 => simp [decodeAnys] at h
  | f+1, n+1 =>
    unfold decodeAnys at h
    cases h1 : decodeAny f d b with
    | none => simp [h1] at h
    | some q =>
      simp only [h1] at h
      cases h2 : decodeAnys f d n q.2 with
      | none => simp [h2] at h
      | some q2 =>
        simp [h2] at h; rw [← h.2]
        exact (decodeAnys_suf f d n q.2 q2.1 q2.2 h2).trans (decodeAny_suf f d b q.1 q.2 h1)
theorem decodeAnyPairs_suf (f d n : Nat) (acc : List (AnyVal × AnyVal)) (b : Bytes) (ps : List (AnyVal × AnyVal)) (r : Bytes)
    (h : decodeAnyPairs f d n acc b = some (ps, r)) : Suf r b := by
  match f, n with
  | f, 0 => cases f <;> (simp [decodeAnyPairs] at h; rw [← h.2]; exact Suf.refl _)
  | 0, n+1 => simp [decodeAnyPairs] at h
  | f+1, n+1 =>
    unfold decodeAnyPairs at h
    cases h1 : decodeAny f d b with
    | none => simp [h1] at h
    | some q =>
      simp only [h1] at h
      cases h2 : decodeAny f d q.2 with
      | none => simp [h2] at h
      | some q2 =>
        simp only [h2] at h
        split at h
        · simp at h
        · exact (decodeAnyPairs_suf f d n _ q2.2 ps r h).trans ((decodeAny_suf f d q.2 q2.1 q2.2 h2).trans (decodeAny_suf f d b q.1 q.2 h1))
end

end Fdo.Cbor

namespace Fdo.Cbor
open Fdo

/-- all six decoders of the typed layer at fuel `f` leave a suffix of their input -/
def SufAll (ok : CertOracle) (f : Nat) : Prop :=
  (∀ d s b v r, decodeS ok f d s b = some (v, r) → Suf r b) ∧
  (∀ d e n b vs r, decodeElems ok f d e n b = some (vs, r) → Suf r b) ∧
  (∀ d fs skip b vs r, decodeFields ok f d fs skip b = some (vs, r) → Suf r b) ∧
  (∀ d ks vs n acc b ps r, decodeMapPairs ok f d ks vs n acc b = some (ps, r) → Suf r b) ∧
  (∀ d b m r, decodeHdrMap f d b = some (m, r) → Suf r b) ∧
  (∀ d n acc b m r, hdrPairs f d n acc b = some (m, r) → Suf r b)

theorem sufAll_zero (ok : CertOracle) : SufAll ok 0 := by
  refine ⟨?_, ?_, ?_, ?_, ?_, ?_⟩
  · intro d s b v r h; simp [decodeS] at h
  · intro d e n b vs r h; cases n <;> simp [decodeElems] at h; rw [← h.2]; exact Suf.refl _
  · intro d fs skip b vs r h; simp [decodeFields] at h
  · intro d ks vs n acc b ps r h; cases n <;> simp [decodeMapPairs] at h; rw [← h.2]; exact Suf.refl _
  · intro d b m r h; simp [decodeHdrMap] at h
  · intro d n acc b m r h; cases n <;> simp [hdrPairs] at h; rw [← h.2]; exact Suf.refl _

end Fdo.Cbor

namespace Fdo.Cbor
open Fdo

theorem suf_elems_step (ok : CertOracle) (f : Nat) (ih : SufAll ok f) :
    ∀ d e n b vs r, decodeElems ok (f + 1) d e n b = some (vs, r) → Suf r b := by
  obtain ⟨iS, iE, _, _, _, _⟩ := ih
  intro d e n b vs r h
  cases n with
  | zero => simp [decodeElems] at h; rw [← h.2]; exact Suf.refl _
  | succ n =>
    simp only [decodeElems] at h
    cases h1 : decodeS ok f d e b with
    | none => simp [h1] at h
    | some q =>
      simp only [h1] at h
      cases h2 : decodeElems ok f d e n q.2 with
      | none => simp [h2] at h
      | some q2 => simp [h2] at h; rw [← h.2]; exact (iE d e n q.2 q2.1 q2.2 h2).trans (iS d e b q.1 q.2 h1)

theorem suf_mapPairs_step (ok : CertOracle) (f : Nat) (ih : SufAll ok f) :
    ∀ d ks vs n acc b ps r, decodeMapPairs ok (f + 1) d ks vs n acc b = some (ps, r) → Suf r b := by
  obtain ⟨iS, _, _, iM, _, _⟩ := ih
  intro d ks vs n acc b ps r h
  cases n with
  | zero => simp [decodeMapPairs] at h; rw [← h.2]; exact Suf.refl _
  | succ n =>
    simp only [decodeMapPairs] at h
    cases h1 : decodeS ok f d ks b with
    | none => simp [h1] at h
    | some q =>
      simp only [h1] at h
      cases h2 : decodeS ok f d vs q.2 with
      | none => simp [h2] at h
      | some q2 =>
        simp only [h2] at h
        have fin : ∀ acc', decodeMapPairs ok f d ks vs n acc' q2.2 = some (ps, r) → Suf r b :=
          fun acc' hm => (iM d ks vs n acc' q2.2 ps r hm).trans ((iS d vs q.2 q2.1 q2.2 h2).trans (iS d ks b q.1 q.2 h1))
        split at h
        · simp at h; exact fin _ h.2
        · simp at h; exact fin _ h

theorem suf_hdrPairs_step (ok : CertOracle) (f : Nat) (ih : SufAll ok f) :
    ∀ d n acc b m r, hdrPairs (f + 1) d n acc b = some (m, r) → Suf r b := by
  obtain ⟨_, _, _, _, _, iP⟩ := ih
  intro d n acc b m r h
  cases n with
  | zero => simp [hdrPairs] at h; rw [← h.2]; exact Suf.refl _
  | succ n =>
    simp only [hdrPairs] at h
    cases h1 : decode f d b with
    | none => simp [h1] at h
    | some q =>
      simp only [h1] at h
      split at h
      · split at h
        · simp at h
        · cases h2 : decode f d q.2 with
          | none => simp [h2] at h
          | some q2 =>
            simp only [h2] at h
            split at h
            · exact (iP d n _ q2.2 m r h).trans ((decode_suf h2).trans (decode_suf h1))
            · simp at h
      · simp at h

theorem suf_hdrMap_step (ok : CertOracle) (f : Nat) (ih : SufAll ok f) :
    ∀ d b m r, decodeHdrMap (f + 1) d b = some (m, r) → Suf r b := by
  obtain ⟨_, _, _, _, _, iP⟩ := ih
  intro d b m r h
  simp only [decodeHdrMap] at h
  cases hd : decHead b with
  | none => simp [hd] at h
  | some q =>
    obtain ⟨mt, ai, arg, r0⟩ := q
    simp only [hd] at h
    split at h
    · split at h
      · simp at h
      · exact (iP _ _ _ _ _ _ h).trans (decHead_suf hd)
    · simp at h

theorem suf_fields_step (ok : CertOracle) (f : Nat) (ih : SufAll ok f) :
    ∀ d fs skip b vs r, decodeFields ok (f + 1) d fs skip b = some (vs, r) → Suf r b := by
  obtain ⟨iS, _, iF, _, iH, _⟩ := ih
  intro d fs skip b vs r h
  cases fs with
  | nil => simp [decodeFields] at h; rw [← h.2]; exact Suf.refl _
  | cons s o rest =>
    simp only [decodeFields] at h
    split at h
    · cases h1 : decodeFields ok f d rest false b with
      | none => simp [h1] at h
      | some q => simp [h1] at h; rw [← h.2]; exact iF d rest false b q.1 q.2 h1
    · cases h1 : decodeS ok f d s b with
      | none => simp [h1] at h
      | some q =>
        simp only [h1] at h
        cases h2 : decodeFields ok f d rest skip q.2 with
        | none => simp [h2] at h
        | some q2 => simp [h2] at h; rw [← h.2]; exact (iF d rest skip q.2 q2.1 q2.2 h2).trans (iS d s b q.1 q.2 h1)
  | hdr rest =>
    simp only [decodeFields] at h
    cases h1 : decodeS ok f maxDepth .bytes b with
    | none => simp [h1] at h
    | some q =>
      obtain ⟨v1, r1⟩ := q
      have s1 := iS maxDepth .bytes b v1 r1 h1
      simp only [h1] at h
      cases v1 <;> try (simp at h; done)
      rename_i pb
      simp only at h
      split at h
      · simp at h
      · rename_i pm _
        cases h2 : decodeHdrMap f maxDepth r1 with
        | none => simp [h2] at h
        | some q2 =>
          simp only [h2] at h
          cases h3 : decodeFields ok f d rest skip q2.2 with
          | none => simp [h3] at h
          | some q3 =>
            simp [h3] at h; rw [← h.2]
            exact (iF d rest skip q2.2 q3.1 q3.2 h3).trans ((iH maxDepth r1 q2.1 q2.2 h2).trans s1)

end Fdo.Cbor

namespace Fdo.Cbor
open Fdo

/-- close a branch whose result is `some (_, r0)` or `some (_, r0.drop n)` with `h0 : Suf r0 b` -/
macro "suf_leaf" h:ident h0:ident : tactic =>
  `(tactic| (first
      | (simp at $h:ident; done)
      | (simp at $h:ident; rw [← ($h).2]; first | exact $h0 | exact (Suf.drop _ _).trans $h0)
      | (simp at $h:ident; rw [← $h:ident]; first | exact $h0 | exact (Suf.drop _ _).trans $h0)))

theorem suf_S_step (ok : CertOracle) (f : Nat) (ih : SufAll ok f) :
    ∀ d s b v r, decodeS ok (f + 1) d s b = some (v, r) → Suf r b := by
  obtain ⟨iS, iE, iF, iM, iH, iP⟩ := ih
  intro d s b v r h
  cases s with
  | uint max =>
    simp only [decodeS] at h
    cases hd : decHead b with
    | none => simp [hd] at h
    | some q =>
      obtain ⟨mt, ai, arg, r0⟩ := q
      have h0 := decHead_suf hd
      simp only [hd] at h
      repeat' (split at h)
      all_goals suf_leaf h h0
  | int bits =>
    simp only [decodeS] at h
    cases hd : decHead b with
    | none => simp [hd] at h
    | some q =>
      obtain ⟨mt, ai, arg, r0⟩ := q
      have h0 := decHead_suf hd
      simp only [hd] at h
      repeat' (split at h)
      all_goals suf_leaf h h0
  | bool =>
    simp only [decodeS] at h
    cases hd : decHead b with
    | none => simp [hd] at h
    | some q =>
      obtain ⟨mt, ai, arg, r0⟩ := q
      have h0 := decHead_suf hd
      simp only [hd] at h
      repeat' (split at h)
      all_goals suf_leaf h h0
  | text =>
    simp only [decodeS] at h
    cases hd : decHead b with
    | none => simp [hd] at h
    | some q =>
      obtain ⟨mt, ai, arg, r0⟩ := q
      have h0 := decHead_suf hd
      simp only [hd] at h
      repeat' (split at h)
      all_goals suf_leaf h h0
  | bytes =>
    simp only [decodeS] at h
    cases hd : decHead b with
    | none => simp [hd] at h
    | some q =>
      obtain ⟨mt, ai, arg, r0⟩ := q
      have h0 := decHead_suf hd
      simp only [hd] at h
      repeat' (split at h)
      all_goals first
        | suf_leaf h h0
        | (simp at h; rw [← h.2]; exact (iE _ _ _ _ _ _ (by assumption)).trans h0)
  | fixed n =>
    simp only [decodeS] at h
    cases hd : decHead b with
    | none => simp [hd] at h
    | some q =>
      obtain ⟨mt, ai, arg, r0⟩ := q
      have h0 := decHead_suf hd
      simp only [hd] at h
      repeat' (split at h)
      all_goals first
        | suf_leaf h h0
        | (simp at h; rw [← h.2]; exact (iE _ _ _ _ _ _ (by assumption)).trans h0)
  | slice e =>
    simp only [decodeS] at h
    cases hd : decHead b with
    | none => simp [hd] at h
    | some q =>
      obtain ⟨mt, ai, arg, r0⟩ := q
      have h0 := decHead_suf hd
      simp only [hd] at h
      repeat' (split at h)
      all_goals first
        | suf_leaf h h0
        | (simp at h; rw [← h.2]; exact (iE _ _ _ _ _ _ (by assumption)).trans h0)
  | struct fs =>
    simp only [decodeS] at h
    cases hd : decHead b with
    | none => simp [hd] at h
    | some q =>
      obtain ⟨mt, ai, arg, r0⟩ := q
      have h0 := decHead_suf hd
      simp only [hd] at h
      repeat' (split at h)
      all_goals first
        | suf_leaf h h0
        | (simp at h; rw [← h.2]; exact (iF _ _ _ _ _ _ (by assumption)).trans h0)
        | (simp at h; rw [← h.2]; exact isNullHead_suf (by assumption))
  | ptr e =>
    simp only [decodeS] at h
    repeat' (split at h)
    all_goals first
      | (simp at h; done)
      | (simp at h; rw [← h.2]; exact isNullHead_suf (by assumption))
      | (simp at h; rw [← h.2]; exact iS _ _ _ _ _ (by assumption))
  | any =>
    simp only [decodeS] at h
    repeat' (split at h)
    all_goals first
      | (simp at h; done)
      | (simp at h; rw [← h.2]; exact decodeAny_suf _ _ _ _ _ (by assumption))
  | mapOf ks vs =>
    simp only [decodeS] at h
    cases hd : decHead b with
    | none => simp [hd] at h
    | some q =>
      obtain ⟨mt, ai, arg, r0⟩ := q
      have h0 := decHead_suf hd
      simp only [hd] at h
      repeat' (split at h)
      all_goals first
        | suf_leaf h h0
        | (simp at h; rw [← h.2]; exact (iM _ _ _ _ _ _ _ _ (by assumption)).trans h0)
  | tagAny e =>
    simp only [decodeS] at h
    cases hd : decHead b with
    | none => simp [hd] at h
    | some q =>
      obtain ⟨mt, ai, arg, r0⟩ := q
      have h0 := decHead_suf hd
      simp only [hd] at h
      repeat' (split at h)
      all_goals first
        | suf_leaf h h0
        | (simp at h; rw [← h.2]; exact (iS _ _ _ _ _ (by assumption)).trans h0)
  | tagNum n e =>
    simp only [decodeS] at h
    repeat' (split at h)
    all_goals first
      | (simp at h; done)
      | (simp at h; rw [← h.2]; exact decode_suf (by assumption))
      | (simp at h; rw [← h]; exact decode_suf (by assumption))
  | bstr e =>
    simp only [decodeS] at h
    repeat' (split at h)
    all_goals first
      | (simp at h; done)
      | (simp at h; rw [← h.2]; exact isNullHead_suf (by assumption))
      | (simp at h; rw [← h.2]; exact (Suf.drop _ _).trans (unwrapBytes_suf (by assumption)))
  | wrap e =>
    simp only [decodeS] at h
    repeat' (split at h)
    all_goals first
      | (simp at h; done)
      | (simp at h; rw [← h.2]; exact isNullHead_suf (by assumption))
      | (simp at h; rw [← h.2]; exact (Suf.drop _ _).trans (unwrapBytes_suf (by assumption)))
  | wrapBytes =>
    simp only [decodeS] at h
    repeat' (split at h)
    all_goals first
      | (simp at h; done)
      | (simp at h; rw [← h.2]; exact isNullHead_suf (by assumption))
      | (simp at h; rw [← h.2]; exact (Suf.drop _ _).trans (unwrapBytes_suf (by assumption)))
  | raw =>
    simp only [decodeS] at h
    repeat' (split at h)
    all_goals first
      | (simp at h; done)
      | (simp at h; rw [← h.2]; exact decode_suf (by assumption))
  | viaRaw e =>
    simp only [decodeS] at h
    repeat' (split at h)
    all_goals first
      | (simp at h; done)
      | (simp at h; rw [← h.2]; exact decode_suf (by assumption))
  | label =>
    simp only [decodeS] at h
    repeat' (split at h)
    all_goals first
      | (simp at h; done)
      | (simp at h; rw [← h.2]; exact decode_suf (by assumption))
  | cert =>
    simp only [decodeS] at h
    repeat' (split at h)
    all_goals first
      | (simp at h; done)
      | (simp at h; rw [← h.2]; exact isNullHead_suf (by assumption))
      | (simp at h; rw [← h.2]; exact (Suf.drop _ _).trans (unwrapBytes_suf (by assumption)))
  | timestamp =>
    simp only [decodeS] at h
    cases hd : decHead b with
    | none => simp [hd] at h
    | some q =>
      obtain ⟨mt, ai, arg, r0⟩ := q
      have h0 := decHead_suf hd
      simp only [hd] at h
      repeat' (split at h)
      all_goals first
        | suf_leaf h h0
        | (simp at h; rw [← h.2]; exact (iS _ _ _ _ _ (by assumption)).trans h0)
  | chunk =>
    simp only [decodeS] at h
    repeat' (split at h)
    all_goals first
      | (simp at h; done)
      | (simp at h; rw [← h.2]; exact decode_suf (by assumption))
  | coseKey =>
    simp only [decodeS] at h
    repeat' (split at h)
    all_goals first
      | (simp at h; done)
      | (simp at h; rw [← h.2]; exact decode_suf (by assumption))
      | (simp at h; rw [← h.2.2]; exact decode_suf (by assumption))

end Fdo.Cbor

namespace Fdo.Cbor
open Fdo

theorem sufAll (ok : CertOracle) (f : Nat) : SufAll ok f := by
  induction f with
  | zero => exact sufAll_zero ok
  | succ f ih =>
    exact ⟨suf_S_step ok f ih, suf_elems_step ok f ih, suf_fields_step ok f ih, suf_mapPairs_step ok f ih,
      suf_hdrMap_step ok f ih, suf_hdrPairs_step ok f ih⟩

/-- **Every decode target consumes exactly a prefix**: whatever type is decoded into, with whatever fuel
and nesting budget, the rest the decoder leaves is the input minus a prefix. -/
theorem decodeS_consumes_prefix (ok : CertOracle) (f d : Nat) (s : Schema) (b : Bytes) (v : Val) (r : Bytes)
    (h : decodeS ok f d s b = some (v, r)) : ∃ p, b = p ++ r :=
  (sufAll ok f).1 d s b v r h

end Fdo.Cbor
