import Fdo.Cbor.TypedFrag
import Fdo.Cbor.HdrProofs
import Fdo.Cbor.WellFormedLimits
/-
decode ∘ encode = id for `interface{}` values (`encodeAny` / `decodeAny`), for the values `confAnyB` admits;
and: whatever `decodeAny` accepts, the structural decoder accepts too, with the same rest.
-/
namespace Fdo.Cbor
open Fdo

theorem encodeAny_len_pos (a : AnyVal) : 1 ≤ (encodeAny a).length := by
  cases a with
  | int i => simp only [encodeAny]; split <;> exact encHead_len_pos _ _
  | bytes b => simp only [encodeAny, List.length_append]; have := encHead_len_pos 2 b.length; omega
  | text b => simp only [encodeAny, List.length_append]; have := encHead_len_pos 3 b.length; omega
  | arr xs => simp only [encodeAny, List.length_append]; have := encHead_len_pos 4 xs.length; omega
  | map ps => simp only [encodeAny, List.length_append]; have := encHead_len_pos 5 ps.length; omega
  | tagRaw t raw => simp only [encodeAny, List.length_append]; have := encHead_len_pos 6 t; omega
  | bool b => cases b <;> simp [encodeAny]
  | null => simp [encodeAny]

theorem anyKeyEq_eq (a b : AnyVal) (h : a.keyEq b = true) : a = b := by
  cases a <;> cases b <;> simp [AnyVal.keyEq] at h <;> simp [h]

theorem mapSet_fresh (acc : List (AnyVal × AnyVal)) (k v : AnyVal) (h : ∀ p ∈ acc, p.1.keyEq k = false) :
    mapSet acc k v = acc ++ [(k, v)] := by
  unfold mapSet
  have : acc.any (fun p => p.1.keyEq k) = false := by
    rw [List.any_eq_false]; intro p hp; simp [h p hp]
  simp [this]

/-- the flattened pairs of a map, in the order given -/
def flatAny (ps : List (AnyVal × AnyVal)) : Bytes := ((encodeAnyPairs ps).map fun p => p.1 ++ p.2).flatten

theorem flatAny_cons (k v : AnyVal) (ps : List (AnyVal × AnyVal)) :
    flatAny ((k, v) :: ps) = encodeAny k ++ (encodeAny v ++ flatAny ps) := by
  simp [flatAny, encodeAnyPairs]

theorem encodeAnyPairs_keys (ps : List (AnyVal × AnyVal)) : (encodeAnyPairs ps).map (·.1) = ps.map (fun p => encodeAny p.1) := by
  induction ps with
  | nil => simp [encodeAnyPairs]
  | cons kv ps ih => obtain ⟨k, v⟩ := kv; simp [encodeAnyPairs, ih]

theorem anySortedB_sound (ps : List (AnyVal × AnyVal)) (h : anySortedB ps = true) :
    ps.Pairwise fun a b => bytesLt (encodeAny a.1) (encodeAny b.1) = true := by
  induction ps with
  | nil => exact List.Pairwise.nil
  | cons a l ih =>
    simp only [anySortedB, Bool.and_eq_true, List.all_eq_true] at h
    exact List.Pairwise.cons (fun b hb => h.1 b hb) (ih h.2)

/-- a map whose keys are in encoding order is written in the order given -/
theorem encodeAny_map_sorted (ps : List (AnyVal × AnyVal)) (hs : anySortedB ps = true) :
    encodeAny (.map ps) = encHead 5 ps.length ++ flatAny ps := by
  have hpw := anySortedB_sound ps hs
  simp only [encodeAny, flatAny, sortByKey]
  have hp : List.Pairwise (fun a b : Bytes × Bytes => (!bytesLt b.1 a.1) = true) (encodeAnyPairs ps) := by
    have : List.Pairwise (fun a b : Bytes => (!bytesLt b a) = true) ((encodeAnyPairs ps).map (·.1)) := by
      rw [encodeAnyPairs_keys, List.pairwise_map]
      exact hpw.imp (fun {a b} h => by simp [bytesLt_asymm _ _ h])
    rw [List.pairwise_map] at this
    exact this
  rw [List.mergeSort_of_pairwise hp]

theorem sorted_keys_distinct (ps : List (AnyVal × AnyVal)) (hs : anySortedB ps = true) :
    ps.Pairwise fun a b => a.1.keyEq b.1 = false := by
  refine (anySortedB_sound ps hs).imp ?_
  intro a b h
  cases hk : a.1.keyEq b.1 with
  | false => rfl
  | true =>
    have := anyKeyEq_eq _ _ hk
    rw [this, bytesLt_irrefl] at h; simp at h

/-! ### round trip -/

def RtA (f : Nat) : Prop :=
  ∀ (a : AnyVal) (r : Bytes) (d : Nat), confAnyB d a = true → 2 * (encodeAny a).length ≤ f →
    decodeAny f d (encodeAny a ++ r) = some (a, r)

def RtAL (f : Nat) : Prop :=
  ∀ (xs : List AnyVal) (r : Bytes) (d : Nat), confAnyListB d xs = true → 2 * (encodeAnyList xs).length + 1 ≤ f →
    decodeAnys f d xs.length (encodeAnyList xs ++ r) = some (xs, r)

def RtAP (f : Nat) : Prop :=
  ∀ (ps : List (AnyVal × AnyVal)) (r : Bytes) (d : Nat) (acc : List (AnyVal × AnyVal)), confAnyPairsB d ps = true →
    2 * (flatAny ps).length + 1 ≤ f →
    (∀ p ∈ acc, ∀ q ∈ ps, p.1.keyEq q.1 = false) → ps.Pairwise (fun a b => a.1.keyEq b.1 = false) →
    decodeAnyPairs f d ps.length acc (flatAny ps ++ r) = some (acc ++ ps, r)

theorem rtAL_step (f : Nat) (hA : RtA f) (hL : RtAL f) : RtAL (f + 1) := by
  intro xs r d hc hf
  cases xs with
  | nil => simp [decodeAnys, encodeAnyList]
  | cons x xs =>
    simp only [confAnyListB, Bool.and_eq_true] at hc
    simp only [encodeAnyList, List.length_append] at hf
    have px := encodeAny_len_pos x
    have d1 := hA x (encodeAnyList xs ++ r) d hc.1 (by omega)
    have d2 := hL xs r d hc.2 (by omega)
    simp only [encodeAnyList, List.length_cons, decodeAnys, List.append_assoc, d1, d2]

theorem rtAP_step (f : Nat) (hA : RtA f) (hP : RtAP f) : RtAP (f + 1) := by
  intro ps r d acc hc hf hdis hpw
  cases ps with
  | nil => simp [decodeAnyPairs, flatAny, encodeAnyPairs]
  | cons kv ps =>
    obtain ⟨k, v⟩ := kv
    simp only [confAnyPairsB, Bool.and_eq_true] at hc
    obtain ⟨⟨⟨hcmp, hck⟩, hcv⟩, hcp⟩ := hc
    rw [flatAny_cons] at hf ⊢
    simp only [List.length_append] at hf
    have pk := encodeAny_len_pos k
    have pv := encodeAny_len_pos v
    have d1 := hA k (encodeAny v ++ (flatAny ps ++ r)) d hck (by omega)
    have d2 := hA v (flatAny ps ++ r) d hcv (by omega)
    have hfresh : ∀ p ∈ acc, p.1.keyEq k = false := fun p hp => hdis p hp (k, v) (by simp)
    have hpw' := (List.pairwise_cons.mp hpw).2
    have hk' := (List.pairwise_cons.mp hpw).1
    have hdis' : ∀ p ∈ acc ++ [(k, v)], ∀ q ∈ ps, p.1.keyEq q.1 = false := by
      intro p hp q hq
      rcases List.mem_append.mp hp with h | h
      · exact hdis p h q (by simp [hq])
      · simp at h; subst h; exact hk' q hq
    have d3 := hP ps r d (acc ++ [(k, v)]) hcp (by omega) hdis' hpw'
    simp only [List.length_cons, decodeAnyPairs, List.append_assoc, d1, d2, hcmp, mapSet_fresh acc k v hfresh, d3]
    simp

theorem rtA_step (f : Nat) (hL : RtAL f) (hP : RtAP f) : RtA (f + 1) := by
  intro a r d hc hf
  cases a with
  | int i =>
    simp only [confAnyB, decide_eq_true_eq] at hc
    simp only [encodeAny]
    by_cases h0 : i ≥ 0
    · obtain ⟨ai, hd⟩ := decHead_encHead 0 i.toNat r (by omega) (by omega)
      simp only [h0, if_true, decodeAny, hd]
      have : ¬ (i.toNat > 9223372036854775807) := by omega
      simp [this]; omega
    · obtain ⟨ai, hd⟩ := decHead_encHead 1 (-1 - i).toNat r (by omega) (by omega)
      simp only [h0, if_false, decodeAny, hd]
      have : ¬ ((-1 - i).toNat ≥ negLimit) := by simp [negLimit]; omega
      simp [this]; omega
  | bytes b =>
    have hb : b.length < 100000 := by
      have h' := hc; simp only [confAnyB, maxLen] at h'; exact of_decide_eq_true h'
    simp only [encodeAny, List.append_assoc]
    obtain ⟨ai, hd⟩ := decHead_encHead 2 b.length (b ++ r) (by omega) (by omega)
    simp only [decodeAny, hd]
    have : ¬ (b.length ≥ maxLen ∨ (b ++ r).length < b.length) := by simp [maxLen]; omega
    simp [this]
    try (simp [maxLen]; omega)
  | text b =>
    have hb : b.length < 100000 := by
      have h' := hc; simp only [confAnyB, maxLen] at h'; exact of_decide_eq_true h'
    simp only [encodeAny, List.append_assoc]
    obtain ⟨ai, hd⟩ := decHead_encHead 3 b.length (b ++ r) (by omega) (by omega)
    simp only [decodeAny, hd]
    have : ¬ (b.length ≥ maxLen ∨ (b ++ r).length < b.length) := by simp [maxLen]; omega
    simp [this]
    try (simp [maxLen]; omega)
  | arr xs =>
    simp only [confAnyB, Bool.and_eq_true, decide_eq_true_eq] at hc
    simp only [encodeAny, List.append_assoc, List.length_append] at hf ⊢
    have ph := encHead_len_pos 4 xs.length
    obtain ⟨ai, hd⟩ := decHead_encHead 4 xs.length (encodeAnyList xs ++ r) (by omega) (by have := hc.1.1; simp [maxLen] at this; omega)
    have d1 := hL xs r (d - 1) hc.2 (by omega)
    simp only [decodeAny, hd]
    have : ¬ (xs.length ≥ maxLen ∨ d = 0) := by omega
    simp [this, d1]
  | map ps =>
    simp only [confAnyB, Bool.and_eq_true, decide_eq_true_eq] at hc
    obtain ⟨⟨hlim, hcp⟩, hs⟩ := hc
    rw [encodeAny_map_sorted ps hs] at hf ⊢
    simp only [List.append_assoc, List.length_append] at hf ⊢
    have ph := encHead_len_pos 5 ps.length
    obtain ⟨ai, hd⟩ := decHead_encHead 5 ps.length (flatAny ps ++ r) (by omega) (by have := hlim.1; simp [maxLen] at this; omega)
    have d1 := hP ps r (d - 1) [] hcp (by omega) (by simp) (sorted_keys_distinct ps hs)
    simp only [decodeAny, hd]
    have : ¬ (ps.length ≥ maxLen / 2 ∨ d = 0) := by omega
    simp [this, d1]
  | tagRaw t raw =>
    simp only [confAnyB, Bool.and_eq_true, decide_eq_true_eq] at hc
    obtain ⟨hlim, hraw⟩ := hc
    simp only [encodeAny, List.append_assoc, List.length_append] at hf ⊢
    have ph := encHead_len_pos 6 t
    obtain ⟨ai, hd⟩ := decHead_encHead 6 t (raw ++ r) (by omega) hlim.1
    cases hdr : decode (2 * raw.length + 1) (d - 1) raw with
    | none => simp [hdr] at hraw
    | some q =>
      obtain ⟨x, rest⟩ := q
      cases rest with
      | cons _ _ => simp [hdr] at hraw
      | nil =>
        have h1 := decode_append _ _ raw r x [] hdr
        simp only [List.nil_append] at h1
        have h2 := decode_fuel _ _ _ _ _ h1 f (by simp; omega)
        simp only [decodeAny, hd]
        have : ¬ (d = 0) := by omega
        simp [this, h2]
  | bool b => cases b <;> simp [encodeAny, decodeAny, decHead]
  | null => simp [encodeAny, decodeAny, decHead]

theorem rtA_all : ∀ f, RtA f ∧ RtAL f ∧ RtAP f := by
  intro f
  induction f with
  | zero =>
    refine ⟨?_, ?_, ?_⟩
    · intro a r d _ hf; have := encodeAny_len_pos a; omega
    · intro xs r d _ hf; omega
    · intro ps r d acc _ hf; omega
  | succ f ih =>
    obtain ⟨hA, hL, hP⟩ := ih
    exact ⟨rtA_step f hL hP, rtAL_step f hA hL, rtAP_step f hA hP⟩

/-- **decode ∘ encode = id for `interface{}` values** -/
theorem decodeAny_encodeAny (a : AnyVal) (r : Bytes) (d f : Nat) (hc : confAnyB d a = true)
    (hf : 2 * (encodeAny a).length ≤ f) : decodeAny f d (encodeAny a ++ r) = some (a, r) :=
  (rtA_all f).1 a r d hc hf

/-! ### what `decodeAny` accepts, the structural decoder accepts -/

mutual
theorem decodeAny_wfl (f d : Nat) (b : Bytes) (v : AnyVal) (r : Bytes) (h : decodeAny f d b = some (v, r)) : WFL d 1 b r := by
  match f with
  | 0 => simp [decodeAny] at h
  | f+1 =>
    unfold decodeAny at h
    cases hd : decHead b with
    | none => simp [hd] at h
    | some q =>
      obtain ⟨mt, ai, arg, r0⟩ := q
      have hlt := decHead_lt_mt hd
      simp only [hd] at h
      by_cases m0 : mt = 0
      · simp only [m0, if_true] at h; split at h <;> simp at h; rw [← h.2]; exact .scalar hd (by omega) .zero
      simp only [m0, if_false] at h
      by_cases m1 : mt = 1
      · simp only [m1, if_true] at h; split at h <;> simp at h; rw [← h.2]; exact .scalar hd (by omega) .zero
      simp only [m1, if_false] at h
      by_cases m2 : mt = 2
      · simp only [m2, if_true] at h; split at h <;> simp at h; rw [← h.2]
        exact .str hd (by omega) (by omega) (by omega) .zero
      simp only [m2, if_false] at h
      by_cases m3 : mt = 3
      · simp only [m3, if_true] at h; split at h <;> simp at h; rw [← h.2]
        exact .str hd (by omega) (by omega) (by omega) .zero
      simp only [m3, if_false] at h
      by_cases m4 : mt = 4
      · simp only [m4, if_true] at h
        split at h
        · simp at h
        · rename_i hc
          cases hi : decodeAnys f (d - 1) arg r0 with
          | none => simp [hi] at h
          | some q =>
            simp [hi] at h; rw [← h.2]
            obtain ⟨d', rfl⟩ : ∃ d', d = d' + 1 := ⟨d - 1, by omega⟩
            subst m4
            exact .arr hd (by omega) (decodeAnys_wfl f d' arg r0 q.1 q.2 hi) .zero
      simp only [m4, if_false] at h
      by_cases m5 : mt = 5
      · simp only [m5, if_true] at h
        split at h
        · simp at h
        · rename_i hc
          cases hi : decodeAnyPairs f (d - 1) arg [] r0 with
          | none => simp [hi] at h
          | some q =>
            simp [hi] at h; rw [← h.2]
            obtain ⟨d', rfl⟩ : ∃ d', d = d' + 1 := ⟨d - 1, by omega⟩
            subst m5
            exact .map hd (by simp [maxLen] at hc ⊢; omega) (decodeAnyPairs_wfl f d' arg [] r0 q.1 q.2 hi) .zero
      simp only [m5, if_false] at h
      by_cases m6 : mt = 6
      · simp only [m6, if_true] at h
        split at h
        · simp at h
        · rename_i hc
          cases hi : decode f (d - 1) r0 with
          | none => simp [hi] at h
          | some q =>
            simp [hi] at h; rw [← h.2]
            obtain ⟨d', rfl⟩ : ∃ d', d = d' + 1 := ⟨d - 1, by omega⟩
            subst m6
            exact .tag hd (decode_wfl f d' r0 q.1 q.2 hi) .zero
      simp only [m6, if_false] at h
      repeat (split at h <;> try (simp at h; rw [← h.2]; exact .scalar hd (by omega) .zero))
      simp at h
theorem decodeAnys_wfl (f d n : Nat) (b : Bytes) (vs : List AnyVal) (r : Bytes) (h : decodeAnys f d n b = some (vs, r)) : WFL d n b r := by
  match f, n with
  | f, 0 => cases f <;> (simp [decodeAnys] at h; rw [← h.2]; exact .zero)
  | 0, n+1 => simp [decodeAnys] at h
  | f+1, n+1 =>
    unfold decodeAnys at h
    cases h1 : decodeAny f d b with
    | none => simp [h1] at h
    | some q =>
      simp only [h1] at h
      cases h2 : decodeAnys f d n q.2 with
      | none => simp [h2] at h
      | some q2 =>
        simp [h2] at h; rw [← h.2]
        have := (decodeAny_wfl f d b q.1 q.2 h1).append (decodeAnys_wfl f d n q.2 q2.1 q2.2 h2)
        rwa [Nat.add_comm] at this
theorem decodeAnyPairs_wfl (f d n : Nat) (acc : List (AnyVal × AnyVal)) (b : Bytes) (ps : List (AnyVal × AnyVal)) (r : Bytes)
    (h : decodeAnyPairs f d n acc b = some (ps, r)) : WFL d (2 * n) b r := by
  match f, n with
  | f, 0 => cases f <;> (simp [decodeAnyPairs] at h; rw [← h.2]; exact .zero)
  | 0, n+1 => simp [decodeAnyPairs] at h
  | f+1, n+1 =>
    unfold decodeAnyPairs at h
    cases h1 : decodeAny f d b with
    | none => simp [h1] at h
    | some q =>
      simp only [h1] at h
      cases h2 : decodeAny f d q.2 with
      | none => simp [h2] at h
      | some q2 =>
        simp only [h2] at h
        split at h
        · simp at h
        · have := (decodeAny_wfl f d b q.1 q.2 h1).append ((decodeAny_wfl f d q.2 q2.1 q2.2 h2).append (decodeAnyPairs_wfl f d n _ q2.2 ps r h))
          rw [show 2 * (n + 1) = 1 + (1 + 2 * n) by omega]; exact this
end

/-- the structural decoder reads an accepted `any` encoding as one item with the same rest -/
theorem decodeAny_then_decode (f d : Nat) (b : Bytes) (v : AnyVal) (r : Bytes) (h : decodeAny f d b = some (v, r)) :
    ∃ x, ∀ g, 2 * b.length ≤ g + 1 → decode g d b = some (x, r) := by
  obtain ⟨xs, hxs⟩ := (decodeAny_wfl f d b v r h).complete
  have h1 := hxs (2 * b.length + 1) (by omega)
  unfold decodeItems at h1
  cases hi : decode (2 * b.length) d b with
  | none => simp [hi] at h1
  | some q =>
    obtain ⟨y, ry⟩ := q
    simp only [hi, decodeItems_zero] at h1
    simp at h1
    obtain ⟨_, e⟩ := h1
    subst e
    exact ⟨y, fun g hg => decode_fuel _ _ _ _ _ hi g (by have := decode_len _ _ _ _ _ hi; omega)⟩

/-! ### `[]any` read element by element, and the devmod modules chunk -/

theorem decodeElems_any (ok : CertOracle) : ∀ (xs : List AnyVal) (r : Bytes) (d f : Nat), confAnyListB d xs = true →
    2 * (encodeAnyList xs).length + 2 ≤ f →
    decodeElems ok f d .any xs.length (encodeAnyList xs ++ r) = some (xs.map Val.any, r)
  | [], r, d, f, _, _ => by cases f <;> simp [decodeElems, encodeAnyList]
  | x :: xs, r, d, f, hc, hf => by
    simp only [confAnyListB, Bool.and_eq_true] at hc
    simp only [encodeAnyList, List.length_append] at hf
    have px := encodeAny_len_pos x
    obtain ⟨f', rfl⟩ : ∃ f', f = f' + 1 := ⟨f - 1, by omega⟩
    obtain ⟨f'', rfl⟩ : ∃ f'', f' = f'' + 1 := ⟨f' - 1, by omega⟩
    have d1 := decodeAny_encodeAny x (encodeAnyList xs ++ r) d f'' hc.1 (by omega)
    have d2 := decodeElems_any ok xs r d (f'' + 1) hc.2 (by omega)
    simp only [encodeAnyList, List.length_cons, decodeElems, decodeS, List.append_assoc, d1, d2, List.map_cons]

theorem chunk_texts_enc : ∀ (ms : List Val), ms.all chunkIsText = true →
    encodeAnyList (ms.map chunkAny) = (ms.map chunkTextEnc).flatten
  | [], _ => by simp [encodeAnyList]
  | m :: ms, h => by
    simp only [List.all_cons, Bool.and_eq_true] at h
    obtain ⟨h1, h2⟩ := h
    cases m <;> simp [chunkIsText] at h1
    simp [encodeAnyList, chunkAny, encodeAny, chunkTextEnc, chunk_texts_enc ms h2]

theorem chunk_texts_back : ∀ (ms : List Val), ms.all chunkIsText = true →
    ((ms.map chunkAny).map Val.any).all chunkIsAnyText = true ∧
    ((ms.map chunkAny).map Val.any).map chunkFromAny = ms
  | [], _ => by simp
  | m :: ms, h => by
    simp only [List.all_cons, Bool.and_eq_true] at h
    obtain ⟨h1, h2⟩ := h
    cases m <;> simp [chunkIsText] at h1
    have := chunk_texts_back ms h2
    simp only [List.map_cons, List.all_cons, chunkAny, chunkIsAnyText, chunkFromAny, this.1, this.2]
    simp

/-- a modules chunk is written as the `[]any` array `chunkArr` -/
theorem chunk_enc (g : Nat) (a b : Int) (ms : List Val) (h : ms.all chunkIsText = true) :
    encodeS (g + 1) .chunk (.strct [.int a, .int b, .list ms]) = some (encodeAny (chunkArr a b ms)) := by
  simp only [encodeS, chunkArr, encodeAny, encodeAnyList, List.length_cons, List.length_map, chunk_texts_enc ms h]
  simp [Nat.add_comm]
  try rw [show 1 + (ms.length + 1) = ms.length + 2 by omega]

theorem chunk_shape (g : Nat) (v : Val) (b : Bytes) (h : encodeS (g + 1) .chunk v = some b) :
    ∃ a b' ms, v = .strct [.int a, .int b', .list ms] := by
  unfold encodeS at h
  split at h
  all_goals first
    | contradiction
    | (simp at h; done)
    | exact ⟨_, _, _, rfl⟩

end Fdo.Cbor
