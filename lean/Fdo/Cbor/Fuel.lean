import Fdo.Cbor.Proofs
/-
Fuel is an artefact of how the decoder model recurses; it never decides an outcome.
-/
namespace Fdo.Cbor
open Fdo

theorem decode_len (f d : Nat) (b : Bytes) (v : Item) (r : Bytes) (h : decode f d b = some (v, r)) :
    r.length < b.length := by
  obtain ⟨p, hp, hl, _⟩ := decode_split f d b v r h
  rw [hp]; simp; omega

theorem decodeItems_len (f d n : Nat) (b : Bytes) (xs : Items) (r : Bytes) (h : decodeItems f d n b = some (xs, r)) :
    r.length ≤ b.length := by
  obtain ⟨p, hp, _⟩ := decodeItems_split f d n b xs r h
  rw [hp]; simp

theorem decodePairs_len (f d n : Nat) (b : Bytes) (ps : Pairs) (r : Bytes) (h : decodePairs f d n b = some (ps, r)) :
    r.length ≤ b.length := by
  obtain ⟨p, hp, _⟩ := decodePairs_split f d n b ps r h
  rw [hp]; simp

theorem decHead_len (b : Bytes) (mt ai arg : Nat) (r0 : Bytes) (h : decHead b = some (mt, ai, arg, r0)) :
    r0.length < b.length := by
  obtain ⟨hb, hbe, hbl, _⟩ := decHead_split b h
  rw [hbe]; simp; omega


mutual
/-- A successful decode is reproduced by any fuel of at least twice the number of bytes it consumed
(minus one): fuel is an artefact of the recursion scheme, it never decides an outcome. -/
theorem decode_fuel (f d : Nat) (b : Bytes) (v : Item) (r : Bytes) (h : decode f d b = some (v, r)) :
    ∀ g, 2 * (b.length - r.length) ≤ g + 1 → decode g d b = some (v, r) := by
  intro g hg
  have hlen := decode_len f d b v r h
  match f with
  | 0 => simp [decode] at h
  | f+1 =>
    obtain ⟨g', rfl⟩ : ∃ g', g = g' + 1 := ⟨g - 1, by omega⟩
    unfold decode at h ⊢
    cases hd : decHead b with
    | none => simp [hd] at h
    | some q =>
      obtain ⟨mt, ai, arg, r0⟩ := q
      have h0 := decHead_len b mt ai arg r0 hd
      simp only [hd] at h ⊢
      by_cases hm0 : mt = 0
      · simp only [hm0, if_true] at h ⊢; exact h
      simp only [hm0, if_false] at h ⊢
      by_cases hm1 : mt = 1
      · simp only [hm1, if_true] at h ⊢; exact h
      simp only [hm1, if_false] at h ⊢
      by_cases hm2 : mt = 2
      · simp only [hm2, if_true] at h ⊢; exact h
      simp only [hm2, if_false] at h ⊢
      by_cases hm3 : mt = 3
      · simp only [hm3, if_true] at h ⊢; exact h
      simp only [hm3, if_false] at h ⊢
      by_cases hm4 : mt = 4
      · simp only [hm4, if_true] at h ⊢
        split at h
        · simp at h
        · rename_i hc
          rw [if_neg hc]
          cases hi : decodeItems f (d - 1) arg r0 with
          | none => simp [hi] at h
          | some q =>
            obtain ⟨xs, r1⟩ := q
            simp only [hi] at h
            have hr : r1 = r := by simp at h; exact h.2
            subst hr
            rw [decodeItems_fuel f (d - 1) arg r0 xs r1 hi g' (by omega)]
            exact h
      simp only [hm4, if_false] at h ⊢
      by_cases hm5 : mt = 5
      · simp only [hm5, if_true] at h ⊢
        split at h
        · simp at h
        · rename_i hc
          rw [if_neg hc]
          cases hi : decodePairs f (d - 1) arg r0 with
          | none => simp [hi] at h
          | some q =>
            obtain ⟨ps, r1⟩ := q
            simp only [hi] at h
            have hr : r1 = r := by simp at h; exact h.2
            subst hr
            rw [decodePairs_fuel f (d - 1) arg r0 ps r1 hi g' (by omega)]
            exact h
      simp only [hm5, if_false] at h ⊢
      by_cases hm6 : mt = 6
      · simp only [hm6, if_true] at h ⊢
        split at h
        · simp at h
        · rename_i hc
          rw [if_neg hc]
          cases hi : decode f (d - 1) r0 with
          | none => simp [hi] at h
          | some q =>
            obtain ⟨x, r1⟩ := q
            simp only [hi] at h
            have hr : r1 = r := by simp at h; exact h.2
            subst hr
            rw [decode_fuel f (d - 1) r0 x r1 hi g' (by omega)]
            exact h
      simp only [hm6, if_false] at h ⊢
      exact h

theorem decodeItems_fuel (f d n : Nat) (b : Bytes) (xs : Items) (r : Bytes) (h : decodeItems f d n b = some (xs, r)) :
    ∀ g, 2 * (b.length - r.length) ≤ g → decodeItems g d n b = some (xs, r) := by
  intro g hg
  match f, n with
  | f, 0 =>
    have : decodeItems f d 0 b = some (.nil, b) := by cases f <;> simp [decodeItems]
    rw [this] at h
    cases g <;> simp [decodeItems] <;> simpa using h
  | 0, n+1 => simp [decodeItems] at h
  | f+1, n+1 =>
    unfold decodeItems at h
    cases hx : decode f d b with
    | none => simp [hx] at h
    | some q =>
      obtain ⟨x, r1⟩ := q
      simp only [hx] at h
      cases hi : decodeItems f d n r1 with
      | none => simp [hi] at h
      | some q2 =>
        obtain ⟨ys, r2⟩ := q2
        simp only [hi] at h
        have hr : r2 = r := by simp at h; exact h.2
        subst hr
        have l1 := decode_len f d b x r1 hx
        have l2 := decodeItems_len f d n r1 ys r2 hi
        obtain ⟨g', rfl⟩ : ∃ g', g = g' + 1 := ⟨g - 1, by omega⟩
        unfold decodeItems
        rw [decode_fuel f d b x r1 hx g' (by omega)]
        simp only
        rw [decodeItems_fuel f d n r1 ys r2 hi g' (by omega)]
        exact h

theorem decodePairs_fuel (f d n : Nat) (b : Bytes) (ps : Pairs) (r : Bytes) (h : decodePairs f d n b = some (ps, r)) :
    ∀ g, 2 * (b.length - r.length) ≤ g → decodePairs g d n b = some (ps, r) := by
  intro g hg
  match f, n with
  | f, 0 =>
    have : decodePairs f d 0 b = some (.nil, b) := by cases f <;> simp [decodePairs]
    rw [this] at h
    cases g <;> simp [decodePairs] <;> simpa using h
  | 0, n+1 => simp [decodePairs] at h
  | f+1, n+1 =>
    unfold decodePairs at h
    cases hk : decode f d b with
    | none => simp [hk] at h
    | some q =>
      obtain ⟨k, r1⟩ := q
      simp only [hk] at h
      cases hv : decode f d r1 with
      | none => simp [hv] at h
      | some q2 =>
        obtain ⟨v, r2⟩ := q2
        simp only [hv] at h
        cases hi : decodePairs f d n r2 with
        | none => simp [hi] at h
        | some q3 =>
          obtain ⟨qs, r3⟩ := q3
          simp only [hi] at h
          have hr : r3 = r := by simp at h; exact h.2
          subst hr
          have l1 := decode_len f d b k r1 hk
          have l2 := decode_len f d r1 v r2 hv
          have l3 := decodePairs_len f d n r2 qs r3 hi
          obtain ⟨g', rfl⟩ : ∃ g', g = g' + 1 := ⟨g - 1, by omega⟩
          unfold decodePairs
          rw [decode_fuel f d b k r1 hk g' (by omega)]
          simp only
          rw [decode_fuel f d r1 v r2 hv g' (by omega)]
          simp only
          rw [decodePairs_fuel f d n r2 qs r3 hi g' (by omega)]
          exact h
end

/-- `decode1` (fuel 2·length + 1) finds whatever any amount of fuel finds: the fuel bound of the
driver and of the theorems is never the reason for an `error`. -/
theorem decode1_complete (f : Nat) (b : Bytes) (v : Item) (r : Bytes) (h : decode f maxDepth b = some (v, r)) :
    decode1 b = some (v, r) := by
  unfold decode1
  exact decode_fuel f maxDepth b v r h _ (by have := decode_len f maxDepth b v r h; omega)

end Fdo.Cbor
