import Fdo.Cbor.Item
/-
`cbor.Unmarshal(b, &v)` with `v any`: what Go value the decoder builds when the
target carries no type information.  Mirrors `Decoder.decodeVal` and its helpers
for an `interface{}` target, including the parts that differ from `decodeRaw`
(int64 range, comparable map keys, duplicate keys, simple values).
-/
namespace Fdo.Cbor
open Fdo

inductive AnyVal where
  | int (i : Int)                 -- int64
  | bytes (b : Bytes)             -- []byte
  | text (b : Bytes)              -- string (Go strings are byte strings; no UTF-8 validation)
  | arr (xs : List AnyVal)        -- []any
  | map (ps : List (AnyVal × AnyVal))  -- map[any]any, in insertion order of first occurrence
  | tagRaw (t : Nat) (raw : Bytes)     -- cbor.Tag[cbor.RawBytes]
  | bool (b : Bool)
  | null
  deriving Repr, BEq

/-- Go `==` on the dynamic types that can be `map[any]any` keys here. -/
def AnyVal.keyEq : AnyVal → AnyVal → Bool
  | .int a, .int b => a == b
  | .text a, .text b => a == b
  | .bool a, .bool b => a == b
  | _, _ => false

/-- comparable dynamic key types: int64, string, bool (`reflect.Type.Comparable`). -/
def AnyVal.comparable : AnyVal → Bool
  | .int _ | .text _ | .bool _ => true
  | _ => false

def mapSet (ps : List (AnyVal × AnyVal)) (k v : AnyVal) : List (AnyVal × AnyVal) :=
  if ps.any (fun p => p.1.keyEq k) then ps.map (fun p => if p.1.keyEq k then (p.1, v) else p)
  else ps ++ [(k, v)]

/-- A negative head argument `arg` (the integer `-1-arg`) is rejected iff `arg ≥ negLimit`:
int64 holds `-1-arg` exactly for `arg < 2^63`. -/
def negLimit : Nat := 9223372036854775808

mutual
def decodeAny : Nat → Nat → Bytes → Option (AnyVal × Bytes)
  | 0, _, _ => none
  | f+1, d, bs =>
    match decHead bs with
    | none => none
    | some (mt, ai, arg, r) =>
      if mt = 0 then
        if arg > 9223372036854775807 then none else some (.int arg, r)
      else if mt = 1 then
        if arg ≥ negLimit then none else some (.int (-1 - (arg : Int)), r)
      else if mt = 2 then
        if arg ≥ maxLen ∨ r.length < arg then none else some (.bytes (r.take arg), r.drop arg)
      else if mt = 3 then
        if arg ≥ maxLen ∨ r.length < arg then none else some (.text (r.take arg), r.drop arg)
      else if mt = 4 then
        if arg ≥ maxLen ∨ d = 0 then none else
        match decodeAnys f (d - 1) arg r with
        | none => none
        | some (xs, r') => some (.arr xs, r')
      else if mt = 5 then
        if arg ≥ maxLen / 2 ∨ d = 0 then none else
        match decodeAnyPairs f (d - 1) arg [] r with
        | none => none
        | some (ps, r') => some (.map ps, r')
      else if mt = 6 then
        if d = 0 then none else
        match decode f (d - 1) r with
        | none => none
        | some (_, r') => some (.tagRaw arg (r.take (r.length - r'.length)), r')
      else if ai = 20 then some (.bool false, r)
      else if ai = 21 then some (.bool true, r)
      else if ai = 22 ∨ ai = 23 then some (.null, r)
      else if ai < 20 then some (.int ai, r)
      else none
def decodeAnys : Nat → Nat → Nat → Bytes → Option (List AnyVal × Bytes)
  | _, _, 0, bs => some ([], bs)
  | 0, _, _+1, _ => none
  | f+1, d, n+1, bs =>
    match decodeAny f d bs with
    | none => none
    | some (x, r) =>
      match decodeAnys f d n r with
      | none => none
      | some (xs, r') => some (x :: xs, r')
def decodeAnyPairs : Nat → Nat → Nat → List (AnyVal × AnyVal) → Bytes → Option (List (AnyVal × AnyVal) × Bytes)
  | _, _, 0, acc, bs => some (acc, bs)
  | 0, _, _+1, _, _ => none
  | f+1, d, n+1, acc, bs =>
    match decodeAny f d bs with
    | none => none
    | some (k, r) =>
      match decodeAny f d r with
      | none => none
      | some (v, r') =>
        if !k.comparable then none else
        decodeAnyPairs f d n (mapSet acc k v) r'
end

end Fdo.Cbor
