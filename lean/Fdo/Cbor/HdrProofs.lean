import Fdo.Cbor.TypedFrag
import Fdo.Cbor.Proofs
import Fdo.Cbor.Fuel
import Fdo.Cbor.CanonProofs
/-
Round trip of the COSE header maps of the typed codec (`encHdrMap` / `decodeHdrMap`) for maps whose
labels are in bytewise order of their encodings and whose values are scalars.
-/
namespace Fdo.Cbor
open Fdo

/-- the untyped item a scalar encodes as -/
def AnyVal.item : AnyVal → Item
  | .int i => if i ≥ 0 then .uint i.toNat else .nint (-1 - i).toNat
  | .bytes b => .bstr b
  | .text b => .tstr b
  | .bool true => .simple 21
  | .bool false => .simple 20
  | _ => .simple 22

theorem scalar_encode (a : AnyVal) (h : a.scalarOK = true) : encodeAny a = encode a.item ∧ a.item.WF ∧ a.item.size = 1 ∧ a.item.depth = 0 := by
  cases a <;> simp [AnyVal.scalarOK] at h
  case int i =>
    by_cases hi : i ≥ 0
    · simp [encodeAny, AnyVal.item, hi, encode, Item.WF, Item.size, Item.depth]; omega
    · simp [encodeAny, AnyVal.item, hi, encode, Item.WF, Item.size, Item.depth]; omega
  case bytes b => simp [encodeAny, AnyVal.item, encode, Item.WF, Item.size, Item.depth, h]
  case text b => simp [encodeAny, AnyVal.item, encode, Item.WF, Item.size, Item.depth, h]
  case bool b => cases b <;> simp [encodeAny, AnyVal.item, encode, Item.WF, Item.size, Item.depth]

/-- the raw decoder delimits a scalar's encoding -/
theorem scalar_decode_raw (a : AnyVal) (h : a.scalarOK = true) (r : Bytes) (f d : Nat) (hf : 1 ≤ f) :
    decode f d (encodeAny a ++ r) = some (a.item, r) := by
  obtain ⟨he, hw, hs, hd⟩ := scalar_encode a h
  rw [he]
  exact decode_encode a.item hw r f d (by omega) (by omega)

/-- `any` reads a scalar's encoding back -/
theorem scalar_decodeAny (a : AnyVal) (h : a.scalarOK = true) (r : Bytes) (f d : Nat) (hf : 1 ≤ f) :
    decodeAny f d (encodeAny a ++ r) = some (a, r) := by
  obtain ⟨f', rfl⟩ : ∃ f', f = f' + 1 := ⟨f - 1, by omega⟩
  cases a <;> simp [AnyVal.scalarOK] at h
  case int i =>
    by_cases hi : i ≥ 0
    · obtain ⟨ai, hd, _⟩ : ∃ ai, decHead (encHead 0 i.toNat ++ r) = some (0, ai, i.toNat, r) ∧ True := by
        obtain ⟨ai, h1⟩ := decHead_encHead 0 i.toNat r (by omega) (by omega); exact ⟨ai, h1, trivial⟩
      simp only [encodeAny, hi, if_true, decodeAny, hd]
      have : ¬ (i.toNat > 9223372036854775807) := by omega
      simp [this]; omega
    · obtain ⟨ai, hd⟩ := decHead_encHead 1 (-1 - i).toNat r (by omega) (by omega)
      simp only [encodeAny, hi, if_false, decodeAny, hd]
      have : ¬ ((-1 - i).toNat ≥ negLimit) := by simp [negLimit]; omega
      simp [this]; omega
  case bytes b =>
    obtain ⟨ai, hd⟩ := decHead_encHead 2 b.length (b ++ r) (by omega) (by simp [maxLen] at h; omega)
    simp only [encodeAny, List.append_assoc, decodeAny, hd]
    simp; omega
  case text b =>
    obtain ⟨ai, hd⟩ := decHead_encHead 3 b.length (b ++ r) (by omega) (by simp [maxLen] at h; omega)
    simp only [encodeAny, List.append_assoc, decodeAny, hd]
    simp; omega
  case bool b =>
    cases b <;> simp [encodeAny, decodeAny, decHead]


/-! ### labels -/

theorem label_facts (k : Val) (h : labelOK k = true) :
    encLabel k = encodeAny (labelAny k) ∧ (labelAny k).scalarOK = true ∧ labelOfAny (labelAny k) = some k := by
  cases k <;> simp [labelOK] at h
  case int i =>
    refine ⟨?_, by simp [labelAny, AnyVal.scalarOK]; omega, by simp [labelAny, labelOfAny]⟩
    simp only [encLabel, labelAny, encodeAny, if_neg h.1]
    by_cases hi : i > 0
    · have : i ≥ 0 := by omega
      simp [hi, this]
    · have : ¬ (i ≥ 0) := by omega
      simp [hi, this]
  case text b => exact ⟨by simp [encLabel, labelAny, encodeAny], by simp [labelAny, AnyVal.scalarOK, h], by simp [labelAny, labelOfAny]⟩

theorem keyEq_enc (k1 k2 : Val) (h1 : labelOK k1 = true) (h2 : labelOK k2 = true) (h : k1.keyEq k2 = true) :
    encLabel k1 = encLabel k2 := by
  cases k1 <;> simp [labelOK] at h1 <;> cases k2 <;> simp [labelOK] at h2 <;> simp [Val.keyEq] at h
  all_goals (subst h; rfl)

/-! ### header maps -/

theorem take_prefix (a b : Bytes) : (a ++ b).take ((a ++ b).length - b.length) = a := by
  have : (a ++ b).length - b.length = a.length := by simp
  rw [this]; simp

theorem vmapSet_fresh {β : Type} (acc : List (Val × β)) (k : Val) (v : β) (h : ∀ p ∈ acc, p.1.keyEq k = false) :
    vmapSet acc k v = acc ++ [(k, v)] := by
  unfold vmapSet
  have : acc.any (fun p => p.1.keyEq k) = false := by
    rw [List.any_eq_false]; intro p hp; simp [h p hp]
  simp [this]

theorem hdrPairs_rt (m : List (Val × AnyVal)) : ∀ (acc : List (Val × AnyVal)) (r : Bytes) (F d : Nat),
    hdrElemsOK m = true → HdrSorted m → (∀ p ∈ acc, ∀ q ∈ m, p.1.keyEq q.1 = false) → m.length + 1 ≤ F →
    hdrPairs F d m.length acc (hdrFlat m ++ r) = some (acc ++ m, r) := by
  induction m with
  | nil => intro acc r F d _ _ _ _; cases F <;> simp [hdrPairs, hdrFlat]
  | cons kv m ih =>
    intro acc r F d hok hs hdis hF
    obtain ⟨k, v⟩ := kv
    obtain ⟨F', rfl⟩ : ∃ F', F = F' + 1 := ⟨F - 1, by omega⟩
    simp only [hdrElemsOK, List.all_cons, Bool.and_eq_true] at hok
    obtain ⟨⟨hk, hv⟩, hrest⟩ := hok
    obtain ⟨hke, hks, hkl⟩ := label_facts k hk
    have hsplit : hdrFlat ((k, v) :: m) ++ r = encodeAny (labelAny k) ++ (encodeAny v ++ (hdrFlat m ++ r)) := by
      simp [hdrFlat, hke, List.append_assoc]
    rw [hsplit]
    simp only [List.length_cons] at hF ⊢
    have d1 := scalar_decode_raw (labelAny k) hks (encodeAny v ++ (hdrFlat m ++ r)) F' d (by omega)
    have a1 := scalar_decodeAny (labelAny k) hks [] F' maxDepth (by omega)
    have d2 := scalar_decode_raw v hv (hdrFlat m ++ r) F' d (by omega)
    have a2 := scalar_decodeAny v hv [] F' maxDepth (by omega)
    simp only [List.append_nil] at a1 a2
    have hfresh : ∀ p ∈ acc, p.1.keyEq k = false := fun p hp => hdis p hp (k, v) (by simp)
    have hs' : HdrSorted m := (List.pairwise_cons.mp hs).2
    have hlt := (List.pairwise_cons.mp hs).1
    have hdis' : ∀ p ∈ acc ++ [(k, v)], ∀ q ∈ m, p.1.keyEq q.1 = false := by
      intro p hp q hq
      rcases List.mem_append.mp hp with h | h
      · exact hdis p h q (by simp [hq])
      · simp at h; subst h
        cases hke' : (k.keyEq q.1) with
        | false => rfl
        | true =>
          have hq' : labelOK q.1 = true := by
            have := List.all_eq_true.mp hrest q hq
            simp at this; exact this.1
          have := keyEq_enc k q.1 hk hq' hke'
          have hl := hlt q hq
          simp only at hl
          rw [this, bytesLt_irrefl] at hl
          cases hl
    have := ih (acc ++ [(k, v)]) r F' d hrest hs' hdis' (by omega)
    unfold hdrPairs
    simp only [d1, take_prefix, a1, hkl, d2, a2, vmapSet_fresh acc k v hfresh, this]
    simp

/-- `encHdrMap` writes the pairs of a sorted map in the order given -/
theorem encHdrMap_sorted (m : List (Val × AnyVal)) (hs : HdrSorted m) :
    encHdrMap m = encHead 5 m.length ++ hdrFlat m := by
  unfold encHdrMap sortByKey hdrFlat
  have hp : List.Pairwise (fun a b : Bytes × Bytes => (!bytesLt b.1 a.1) = true) (m.map fun p => (encLabel p.1, encodeAny p.2)) := by
    rw [List.pairwise_map]
    exact hs.imp (fun {a b} h => by simp [bytesLt_asymm _ _ h])
  rw [List.mergeSort_of_pairwise hp]
  simp [List.map_map, Function.comp_def]

theorem decodeHdrMap_rt (m : List (Val × AnyVal)) (r : Bytes) (F D : Nat)
    (hok : hdrElemsOK m = true) (hs : HdrSorted m) (hl : m.length < maxLen / 2) (hD : 1 ≤ D) (hF : m.length + 2 ≤ F) :
    decodeHdrMap F D (encHdrMap m ++ r) = some (m, r) := by
  obtain ⟨F', rfl⟩ : ∃ F', F = F' + 1 := ⟨F - 1, by omega⟩
  rw [encHdrMap_sorted m hs, List.append_assoc]
  obtain ⟨ai, hd⟩ := decHead_encHead 5 m.length (hdrFlat m ++ r) (by omega) (by simp [maxLen] at hl; omega)
  unfold decodeHdrMap
  simp only [hd]
  have : ¬ (m.length ≥ maxLen / 2 ∨ D = 0) := by omega
  simp only [if_true, this, if_false]
  have := hdrPairs_rt m [] r F' (D - 1) hok hs (by simp) (by omega)
  simpa using this


theorem encHead_len_pos (mt n : Nat) : 1 ≤ (encHead mt n).length := by
  unfold encHead; split <;> (try split) <;> (try split) <;> (try split) <;> simp

theorem encLabel_len_pos (k : Val) (h : labelOK k = true) : 1 ≤ (encLabel k).length := by
  cases k <;> simp [labelOK] at h
  case int i =>
    simp only [encLabel, if_neg h.1]
    split
    · exact encHead_len_pos _ _
    · exact encHead_len_pos _ _
  case text b => simp only [encLabel, List.length_append]; have := encHead_len_pos 3 b.length; omega

theorem hdrFlat_len (m : List (Val × AnyVal)) (h : hdrElemsOK m = true) : m.length ≤ (hdrFlat m).length := by
  induction m with
  | nil => simp
  | cons kv m ih =>
    simp only [hdrElemsOK, List.all_cons, Bool.and_eq_true] at h
    have := ih h.2
    have hk := encLabel_len_pos kv.1 h.1.1
    simp only [hdrFlat, List.map_cons, List.flatten_cons, List.length_append, List.length_cons] at this ⊢
    omega

theorem encHdrMap_len (m : List (Val × AnyVal)) (h : hdrElemsOK m = true) (hs : HdrSorted m) :
    m.length + 1 ≤ (encHdrMap m).length := by
  rw [encHdrMap_sorted m hs]
  have := hdrFlat_len m h
  have := encHead_len_pos 5 m.length
  simp only [List.length_append]; omega


/-! ### the untyped decoder on a header map -/

theorem decodePairs_hdr (m : List (Val × AnyVal)) : ∀ (r : Bytes) (F d : Nat), hdrElemsOK m = true → m.length + 1 ≤ F →
    ∃ ps, decodePairs F d m.length (hdrFlat m ++ r) = some (ps, r) := by
  induction m with
  | nil => intro r F d _ _; exact ⟨.nil, by cases F <;> simp [decodePairs, hdrFlat]⟩
  | cons kv m ih =>
    intro r F d hok hF
    obtain ⟨k, v⟩ := kv
    obtain ⟨F', rfl⟩ : ∃ F', F = F' + 1 := ⟨F - 1, by omega⟩
    simp only [hdrElemsOK, List.all_cons, Bool.and_eq_true] at hok
    obtain ⟨⟨hk, hv⟩, hrest⟩ := hok
    obtain ⟨hke, hks, _⟩ := label_facts k hk
    have hsplit : hdrFlat ((k, v) :: m) ++ r = encodeAny (labelAny k) ++ (encodeAny v ++ (hdrFlat m ++ r)) := by
      simp [hdrFlat, hke, List.append_assoc]
    rw [hsplit]
    simp only [List.length_cons] at hF ⊢
    have d1 := scalar_decode_raw (labelAny k) hks (encodeAny v ++ (hdrFlat m ++ r)) F' d (by omega)
    have d2 := scalar_decode_raw v hv (hdrFlat m ++ r) F' d (by omega)
    obtain ⟨ps, hps⟩ := ih r F' d hrest (by omega)
    exact ⟨.cons (labelAny k).item v.item ps, by unfold decodePairs; simp only [d1, d2, hps]⟩

theorem decode_hdrMap (m : List (Val × AnyVal)) (r : Bytes) (F d : Nat)
    (hok : hdrElemsOK m = true) (hs : HdrSorted m) (hl : m.length < maxLen / 2) (hd : 1 ≤ d) (hF : m.length + 2 ≤ F) :
    ∃ x, decode F d (encHdrMap m ++ r) = some (x, r) := by
  obtain ⟨F', rfl⟩ : ∃ F', F = F' + 1 := ⟨F - 1, by omega⟩
  rw [encHdrMap_sorted m hs, List.append_assoc]
  obtain ⟨ai, hh⟩ := decHead_encHead 5 m.length (hdrFlat m ++ r) (by omega) (by simp [maxLen] at hl; omega)
  obtain ⟨ps, hps⟩ := decodePairs_hdr m r F' (d - 1) hok (by omega)
  refine ⟨.map ps, ?_⟩
  unfold decode
  simp only [hh]
  have : ¬ (m.length ≥ maxLen ∨ 2 * m.length ≥ maxLen ∨ d = 0) := by simp [maxLen] at hl ⊢; omega
  simp [this, hps]

end Fdo.Cbor
