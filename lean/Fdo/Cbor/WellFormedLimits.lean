import Fdo.Cbor.WellFormed
import Fdo.Cbor.Fuel
/-
The structural decoder characterised: it accepts *exactly* the well-formed items that stay within the
documented limits, and consumes exactly them.

`WFL d n b r`: `b` is `n` well-formed items followed by `r`, where no string is `maxLen` bytes or longer,
no array has `maxLen` items or more, no map has `maxLen/2` pairs or more, and containers (arrays, maps,
tags) nest at most `d` deep. Like `WFN` it is a grammar: no decoder, no fuel.
-/
namespace Fdo.Cbor
open Fdo

inductive WFL : Nat → Nat → Bytes → Bytes → Prop
  | zero {d : Nat} {b : Bytes} : WFL d 0 b b
  | scalar {d n mt ai arg : Nat} {b r r' : Bytes} : decHead b = some (mt, ai, arg, r) → (mt = 0 ∨ mt = 1 ∨ mt = 7) →
      WFL d n r r' → WFL d (n + 1) b r'
  | str {d n mt ai arg : Nat} {b r r' : Bytes} : decHead b = some (mt, ai, arg, r) → (mt = 2 ∨ mt = 3) → arg < maxLen →
      arg ≤ r.length → WFL d n (r.drop arg) r' → WFL d (n + 1) b r'
  | arr {d n ai arg : Nat} {b r r1 r' : Bytes} : decHead b = some (4, ai, arg, r) → arg < maxLen →
      WFL d arg r r1 → WFL (d + 1) n r1 r' → WFL (d + 1) (n + 1) b r'
  | map {d n ai arg : Nat} {b r r1 r' : Bytes} : decHead b = some (5, ai, arg, r) → 2 * arg < maxLen →
      WFL d (2 * arg) r r1 → WFL (d + 1) n r1 r' → WFL (d + 1) (n + 1) b r'
  | tag {d n ai arg : Nat} {b r r1 r' : Bytes} : decHead b = some (6, ai, arg, r) →
      WFL d 1 r r1 → WFL (d + 1) n r1 r' → WFL (d + 1) (n + 1) b r'

theorem WFL.append {d n m : Nat} {a b c : Bytes} (h1 : WFL d n a b) (h2 : WFL d m b c) : WFL d (n + m) a c := by
  induction h1 generalizing m c with
  | zero => simpa using h2
  | @scalar d k _ _ _ _ _ _ hd hm _ ih =>
    have := ih h2; rw [show k + 1 + m = (k + m) + 1 by omega]; exact .scalar hd hm this
  | @str d k _ _ _ _ _ _ hd hm hlim hl _ ih =>
    have := ih h2; rw [show k + 1 + m = (k + m) + 1 by omega]; exact .str hd hm hlim hl this
  | @arr d k _ _ _ _ _ _ hd hlim he _ _ ih =>
    have := ih h2; rw [show k + 1 + m = (k + m) + 1 by omega]; exact .arr hd hlim he this
  | @map d k _ _ _ _ _ _ hd hlim he _ _ ih =>
    have := ih h2; rw [show k + 1 + m = (k + m) + 1 by omega]; exact .map hd hlim he this
  | @tag d k _ _ _ _ _ _ hd he _ _ ih =>
    have := ih h2; rw [show k + 1 + m = (k + m) + 1 by omega]; exact .tag hd he this

/-- within the limits is in particular well-formed -/
theorem WFL.wfn {d n : Nat} {b r : Bytes} (h : WFL d n b r) : WFN n b r := by
  induction h with
  | zero => exact .zero
  | scalar hd hm _ ih => exact .scalar hd hm ih
  | str hd hm _ hl _ ih => exact .str hd hm hl ih
  | arr hd _ _ _ ih1 ih2 => exact .arr hd (ih1.append ih2)
  | map hd _ _ _ ih1 ih2 => exact .map hd (ih1.append ih2)
  | tag hd _ _ ih1 ih2 => exact .tag hd (ih1.append ih2)

theorem WFL.len {d n : Nat} {b r : Bytes} (h : WFL d n b r) : r.length ≤ b.length := by
  induction h with
  | zero => exact Nat.le_refl _
  | scalar hd _ _ ih => have := decHead_len _ _ _ _ _ hd; omega
  | str hd _ _ _ _ ih => have := decHead_len _ _ _ _ _ hd; simp at ih; omega
  | arr hd _ _ _ ih1 ih2 => have := decHead_len _ _ _ _ _ hd; omega
  | map hd _ _ _ ih1 ih2 => have := decHead_len _ _ _ _ _ hd; omega
  | tag hd _ _ ih1 ih2 => have := decHead_len _ _ _ _ _ hd; omega

/-! ### soundness: what is accepted is within the limits -/

mutual
theorem decode_wfl (f d : Nat) (b : Bytes) (v : Item) (r : Bytes) (h : decode f d b = some (v, r)) : WFL d 1 b r := by
  match f with
  | 0 => simp [decode] at h
  | f+1 =>
    unfold decode at h
    cases hd : decHead b with
    | none => simp [hd] at h
    | some q =>
      obtain ⟨mt, ai, arg, r0⟩ := q
      have hlt := decHead_lt_mt hd
      simp only [hd] at h
      by_cases m0 : mt = 0
      · simp only [m0, if_true] at h; simp at h; rw [← h.2]; exact .scalar hd (by omega) .zero
      simp only [m0, if_false] at h
      by_cases m1 : mt = 1
      · simp only [m1, if_true] at h; simp at h; rw [← h.2]; exact .scalar hd (by omega) .zero
      simp only [m1, if_false] at h
      by_cases m2 : mt = 2
      · simp only [m2, if_true] at h; split at h <;> simp at h; rw [← h.2]
        exact .str hd (by omega) (by omega) (by omega) .zero
      simp only [m2, if_false] at h
      by_cases m3 : mt = 3
      · simp only [m3, if_true] at h; split at h <;> simp at h; rw [← h.2]
        exact .str hd (by omega) (by omega) (by omega) .zero
      simp only [m3, if_false] at h
      by_cases m4 : mt = 4
      · simp only [m4, if_true] at h
        split at h
        · simp at h
        · rename_i hc
          cases hi : decodeItems f (d - 1) arg r0 with
          | none => simp [hi] at h
          | some q =>
            simp [hi] at h; rw [← h.2]
            obtain ⟨d', rfl⟩ : ∃ d', d = d' + 1 := ⟨d - 1, by omega⟩
            subst m4
            exact .arr hd (by omega) (decodeItems_wfl f d' arg r0 q.1 q.2 hi) .zero
      simp only [m4, if_false] at h
      by_cases m5 : mt = 5
      · simp only [m5, if_true] at h
        split at h
        · simp at h
        · rename_i hc
          cases hi : decodePairs f (d - 1) arg r0 with
          | none => simp [hi] at h
          | some q =>
            simp [hi] at h; rw [← h.2]
            obtain ⟨d', rfl⟩ : ∃ d', d = d' + 1 := ⟨d - 1, by omega⟩
            subst m5
            exact .map hd (by omega) (decodePairs_wfl f d' arg r0 q.1 q.2 hi) .zero
      simp only [m5, if_false] at h
      by_cases m6 : mt = 6
      · simp only [m6, if_true] at h
        split at h
        · simp at h
        · rename_i hc
          cases hi : decode f (d - 1) r0 with
          | none => simp [hi] at h
          | some q =>
            simp [hi] at h; rw [← h.2]
            obtain ⟨d', rfl⟩ : ∃ d', d = d' + 1 := ⟨d - 1, by omega⟩
            subst m6
            exact .tag hd (decode_wfl f d' r0 q.1 q.2 hi) .zero
      simp only [m6, if_false] at h
      split at h <;> (simp at h; rw [← h.2]; exact .scalar hd (by omega) .zero)
theorem decodeItems_wfl (f d n : Nat) (b : Bytes) (xs : Items) (r : Bytes) (h : decodeItems f d n b = some (xs, r)) : WFL d n b r := by
  match f, n with
  | f, 0 => cases f <;> (simp [decodeItems] at h; rw [← h.2]; exact .zero)
  | 0, n+1 => simp [decodeItems] at h
  | f+1, n+1 =>
    unfold decodeItems at h
    cases h1 : decode f d b with
    | none => simp [h1] at h
    | some q =>
      simp only [h1] at h
      cases h2 : decodeItems f d n q.2 with
      | none => simp [h2] at h
      | some q2 =>
        simp [h2] at h; rw [← h.2]
        have := (decode_wfl f d b q.1 q.2 h1).append (decodeItems_wfl f d n q.2 q2.1 q2.2 h2)
        rwa [Nat.add_comm] at this
theorem decodePairs_wfl (f d n : Nat) (b : Bytes) (ps : Pairs) (r : Bytes) (h : decodePairs f d n b = some (ps, r)) : WFL d (2 * n) b r := by
  match f, n with
  | f, 0 => cases f <;> (simp [decodePairs] at h; rw [← h.2]; exact .zero)
  | 0, n+1 => simp [decodePairs] at h
  | f+1, n+1 =>
    unfold decodePairs at h
    cases h1 : decode f d b with
    | none => simp [h1] at h
    | some q =>
      simp only [h1] at h
      cases h2 : decode f d q.2 with
      | none => simp [h2] at h
      | some q2 =>
        simp only [h2] at h
        cases h3 : decodePairs f d n q2.2 with
        | none => simp [h3] at h
        | some q3 =>
          simp [h3] at h; rw [← h.2]
          have := (decode_wfl f d b q.1 q.2 h1).append ((decode_wfl f d q.2 q2.1 q2.2 h2).append (decodePairs_wfl f d n q2.2 q3.1 q3.2 h3))
          rw [show 2 * (n + 1) = 1 + (1 + 2 * n) by omega]; exact this
end

end Fdo.Cbor

namespace Fdo.Cbor
open Fdo

/-! ### completeness: what is within the limits is accepted -/

theorem decodeItems_zero (g d : Nat) (b : Bytes) : decodeItems g d 0 b = some (.nil, b) := by
  cases g <;> simp [decodeItems]

theorem decodePairs_zero (g d : Nat) (b : Bytes) : decodePairs g d 0 b = some (.nil, b) := by
  cases g <;> simp [decodePairs]

/-- an even number of items read one by one can be read as pairs -/
theorem items_to_pairs (d : Nat) : ∀ (n f : Nat) (b : Bytes) (xs : Items) (r : Bytes),
    decodeItems f d (2 * n) b = some (xs, r) → ∃ ps, ∀ g, 2 * b.length ≤ g → decodePairs g d n b = some (ps, r)
  | 0, f, b, xs, r, h => by
    rw [decodeItems_zero] at h; simp at h
    exact ⟨.nil, fun g _ => by rw [decodePairs_zero, h.2]⟩
  | n+1, f, b, xs, r, h => by
    rw [show 2 * (n + 1) = (2 * n + 1) + 1 by omega] at h
    match f with
    | 0 => simp [decodeItems] at h
    | f+1 =>
      unfold decodeItems at h
      cases h1 : decode f d b with
      | none => simp [h1] at h
      | some q =>
        obtain ⟨x, r1⟩ := q
        simp only [h1] at h
        match f with
        | 0 => simp [decode] at h1
        | f+1 =>
          unfold decodeItems at h
          cases h2 : decode f d r1 with
          | none => simp [h2] at h
          | some q2 =>
            obtain ⟨y, r2⟩ := q2
            simp only [h2] at h
            cases h3 : decodeItems f d (2 * n) r2 with
            | none => simp [h3] at h
            | some q3 =>
              obtain ⟨zs, r3⟩ := q3
              simp [h3] at h
              obtain ⟨ps, hps⟩ := items_to_pairs d n f r2 zs r3 h3
              have l1 := decode_len _ _ _ _ _ h1
              have l2 := decode_len _ _ _ _ _ h2
              refine ⟨.cons x y ps, ?_⟩
              intro g hg
              obtain ⟨g', rfl⟩ : ∃ g', g = g' + 1 := ⟨g - 1, by omega⟩
              unfold decodePairs
              rw [decode_fuel _ _ _ _ _ h1 g' (by omega)]
              simp only
              rw [decode_fuel _ _ _ _ _ h2 g' (by omega)]
              simp only
              rw [hps g' (by omega)]
              simp [h.2]

/-- reading one more item in front -/
theorem items_cons (d n : Nat) (b r1 r' : Bytes) (x : Item) (xs : Items) (hlen : r1.length < b.length)
    (h1 : ∀ g, 2 * b.length ≤ g + 1 → decode g d b = some (x, r1))
    (h2 : ∀ g, 2 * r1.length ≤ g → decodeItems g d n r1 = some (xs, r')) :
    ∀ g, 2 * b.length ≤ g → decodeItems g d (n + 1) b = some (.cons x xs, r') := by
  intro g hg
  obtain ⟨g', rfl⟩ : ∃ g', g = g' + 1 := ⟨g - 1, by omega⟩
  unfold decodeItems
  rw [h1 g' (by omega)]
  simp only
  rw [h2 g' (by omega)]

theorem WFL.complete {d n : Nat} {b r : Bytes} (h : WFL d n b r) :
    ∃ xs, ∀ g, 2 * b.length ≤ g → decodeItems g d n b = some (xs, r) := by
  induction h with
  | zero => exact ⟨.nil, fun g _ => decodeItems_zero g _ _⟩
  | @scalar d n mt ai arg b r0 r' hd hm _ ih =>
    obtain ⟨xs, hxs⟩ := ih
    have hl := decHead_len _ _ _ _ _ hd
    have : ∃ x, ∀ g, 2 * b.length ≤ g + 1 → decode g d b = some (x, r0) := by
      rcases hm with hm | hm | hm
      · refine ⟨.uint arg, fun g hg => ?_⟩
        obtain ⟨g', rfl⟩ : ∃ g', g = g' + 1 := ⟨g - 1, by omega⟩
        simp [decode, hd, hm]
      · refine ⟨.nint arg, fun g hg => ?_⟩
        obtain ⟨g', rfl⟩ : ∃ g', g = g' + 1 := ⟨g - 1, by omega⟩
        simp [decode, hd, hm]
      · refine ⟨if ai < 24 then .simple ai else .m7 ai arg, fun g hg => ?_⟩
        obtain ⟨g', rfl⟩ : ∃ g', g = g' + 1 := ⟨g - 1, by omega⟩
        simp only [decode, hd, hm]
        simp
        split <;> rfl
    obtain ⟨x, hx⟩ := this
    exact ⟨.cons x xs, items_cons d n b r0 r' x xs hl hx hxs⟩
  | @str d n mt ai arg b r0 r' hd hm hlim hlen _ ih =>
    obtain ⟨xs, hxs⟩ := ih
    have hl := decHead_len _ _ _ _ _ hd
    have : ∃ x, ∀ g, 2 * b.length ≤ g + 1 → decode g d b = some (x, r0.drop arg) := by
      rcases hm with hm | hm
      · refine ⟨.bstr (r0.take arg), fun g hg => ?_⟩
        obtain ⟨g', rfl⟩ : ∃ g', g = g' + 1 := ⟨g - 1, by omega⟩
        simp only [decode, hd, hm]
        rw [if_neg (by omega)]; simp
        all_goals exact ⟨hlim, hlen⟩
      · refine ⟨.tstr (r0.take arg), fun g hg => ?_⟩
        obtain ⟨g', rfl⟩ : ∃ g', g = g' + 1 := ⟨g - 1, by omega⟩
        simp only [decode, hd, hm]
        rw [if_neg (by omega)]; simp
        all_goals exact ⟨hlim, hlen⟩
    obtain ⟨x, hx⟩ := this
    exact ⟨.cons x xs, items_cons d n b _ r' x xs (by simp; omega) hx hxs⟩
  | @arr d n ai arg b r0 r1 r' hd hlim he _ ih1 ih2 =>
    obtain ⟨ys, hys⟩ := ih1
    obtain ⟨xs, hxs⟩ := ih2
    have hl := decHead_len _ _ _ _ _ hd
    have hl1 := he.len
    have hx : ∀ g, 2 * b.length ≤ g + 1 → decode g (d + 1) b = some (.arr ys, r1) := by
      intro g hg
      obtain ⟨g', rfl⟩ : ∃ g', g = g' + 1 := ⟨g - 1, by omega⟩
      simp only [decode, hd]
      rw [if_neg (by omega)]
      simp [hys g' (by omega)]
      all_goals omega
    exact ⟨.cons (.arr ys) xs, items_cons (d + 1) n b r1 r' _ xs (by omega) hx hxs⟩
  | @map d n ai arg b r0 r1 r' hd hlim he _ ih1 ih2 =>
    obtain ⟨ys, hys⟩ := ih1
    obtain ⟨xs, hxs⟩ := ih2
    have hl := decHead_len _ _ _ _ _ hd
    have hl1 := he.len
    obtain ⟨ps, hps⟩ := items_to_pairs d arg _ r0 ys r1 (hys (2 * r0.length) (Nat.le_refl _))
    have hx : ∀ g, 2 * b.length ≤ g + 1 → decode g (d + 1) b = some (.map ps, r1) := by
      intro g hg
      obtain ⟨g', rfl⟩ : ∃ g', g = g' + 1 := ⟨g - 1, by omega⟩
      simp only [decode, hd]
      rw [if_neg (by omega)]
      simp [hps g' (by omega)]
      all_goals omega
    exact ⟨.cons (.map ps) xs, items_cons (d + 1) n b r1 r' _ xs (by omega) hx hxs⟩
  | @tag d n ai arg b r0 r1 r' hd he _ ih1 ih2 =>
    obtain ⟨ys, hys⟩ := ih1
    obtain ⟨xs, hxs⟩ := ih2
    have hl := decHead_len _ _ _ _ _ hd
    have hl1 := he.len
    -- the one item behind the tag head
    have h1 := hys (2 * r0.length + 1) (by omega)
    unfold decodeItems at h1
    cases hi : decode (2 * r0.length) d r0 with
    | none => simp [hi] at h1
    | some q =>
      obtain ⟨y, ry⟩ := q
      simp only [hi, decodeItems_zero] at h1
      simp at h1
      obtain ⟨_, e⟩ := h1
      subst e
      have hx : ∀ g, 2 * b.length ≤ g + 1 → decode g (d + 1) b = some (.tag arg y, ry) := by
        intro g hg
        obtain ⟨g', rfl⟩ : ∃ g', g = g' + 1 := ⟨g - 1, by omega⟩
        simp only [decode, hd]
        simp [decode_fuel _ _ _ _ _ hi g' (by omega)]
      exact ⟨.cons (.tag arg y) xs, items_cons (d + 1) n b ry r' _ xs (by omega) hx hxs⟩

/-- **The structural decoder accepts exactly the well-formed items within the documented limits**, and
leaves the stream right behind the item. -/
theorem decode1_iff_wfl (b r : Bytes) : (∃ v, decode1 b = some (v, r)) ↔ WFL maxDepth 1 b r := by
  constructor
  · rintro ⟨v, h⟩; exact decode_wfl _ _ _ _ _ h
  · intro h
    obtain ⟨xs, hxs⟩ := h.complete
    have h1 := hxs (2 * b.length + 1) (by omega)
    unfold decodeItems at h1
    cases hi : decode (2 * b.length) maxDepth b with
    | none => simp [hi] at h1
    | some q =>
      obtain ⟨y, ry⟩ := q
      simp only [hi, decodeItems_zero] at h1
      simp at h1
      obtain ⟨_, e⟩ := h1
      subst e
      exact ⟨y, decode1_complete _ _ _ _ hi⟩

end Fdo.Cbor
