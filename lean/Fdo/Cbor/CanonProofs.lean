import Fdo.Cbor.Proofs
import Fdo.Cbor.Canon
/-
Canonical form: what the strict decoder accepts is exactly the encoder's output.
Helper lemmas for Props/C11 (`reencode_canonical`, `marshal_is_canonical`, …).
-/
namespace Fdo.Cbor
open Fdo

/-! ### heads -/

theorem ofNat_div_mod (x : UInt8) : UInt8.ofNat (x.toNat / 32 * 32 + x.toNat % 32) = x := by
  have : x.toNat / 32 * 32 + x.toNat % 32 = x.toNat := by omega
  rw [this]; simp

theorem take_len {α} (l : List α) (n : Nat) (h : n ≤ l.length) : (l.take n).length = n := by
  simp; omega

theorem wide_tail (t : Bytes) (w arg : Nat) (r : Bytes) (hlen : w ≤ t.length)
    (harg : beNat (t.take w) = arg) (hr : t.drop w = r) : t = natBE w arg ++ r ∧ arg < 256 ^ w := by
  have hl := take_len t w hlen
  have hb := beNat_lt (t.take w)
  have hnb := natBE_beNat (t.take w)
  rw [hl] at hb hnb
  rw [harg] at hb hnb
  refine ⟨?_, hb⟩
  rw [hnb, ← hr]; simp

/-- A head the strict decoder accepts is the shortest-form head of its argument, and the lenient
decoder reads it the same way. -/
theorem decHeadStrict_repro (b : Bytes) {mt ai arg : Nat} {r : Bytes}
    (h : decHeadStrict b = some (mt, ai, arg, r)) :
    b = encHead mt arg ++ r ∧ mt < 8 ∧ (mt = 7 → ai < 24 → encHead 7 arg = [UInt8.ofNat (7 * 32 + ai)])
      ∧ decHead b = some (mt, ai, arg, r) ∧ arg < 18446744073709551616 := by
  cases b with
  | nil => simp [decHeadStrict] at h
  | cons x t =>
    have hx : x.toNat < 256 := UInt8.toNat_lt x
    simp only [decHeadStrict] at h
    by_cases h1 : x.toNat % 32 < 24
    · rw [if_pos h1] at h
      simp only [Option.some.injEq, Prod.mk.injEq] at h
      obtain ⟨hmt, hai, harg, hr⟩ := h
      subst hr
      have e := ofNat_div_mod x
      refine ⟨?_, by omega, ?_, ?_, by omega⟩
      · unfold encHead; rw [if_pos (by omega)]
        rw [← hmt, ← harg]; simp [e]
      · intro h7 _; unfold encHead; rw [if_pos (by omega)]; rw [← harg, ← hai]
      · simp only [decHead]; rw [if_pos h1]; simp [hmt, hai]; omega
    · have hcases : x.toNat % 32 ≥ 28 ∨ x.toNat % 32 = 24 ∨ x.toNat % 32 = 25 ∨ x.toNat % 32 = 26 ∨ x.toNat % 32 = 27 := by omega
      have e := ofNat_div_mod x
      rcases hcases with hc | hc | hc | hc | hc
      · rw [if_neg h1, if_pos hc] at h; simp at h
      all_goals (
        rw [if_neg h1, if_neg (by omega)] at h
        rw [hc] at h e
        simp only [argWidth, ↓reduceIte, Nat.reduceEqDiff] at h
        split at h
        · simp at h
        rename_i hlen
        split at h
        · simp at h
        rename_i hlo
        simp only [Option.some.injEq, Prod.mk.injEq] at h
        obtain ⟨hmt, hai, harg, hr⟩ := h
        obtain ⟨hnb, hb⟩ := wide_tail t _ arg r (by omega) harg hr
        have hdec : decHead (x :: t) = some (mt, ai, arg, r) := by
          simp only [decHead, hc, argWidth, ↓reduceIte, Nat.reduceEqDiff]
          rw [if_neg (by omega), if_neg (by omega), if_neg hlen]; simp [hmt, hai, harg, hr]
        refine ⟨?_, by omega, by intro _ h24; omega, hdec, by omega⟩
        unfold encHead
        rw [← hmt])
      · rw [if_neg (by omega), if_pos (by omega), e]; simpa using hnb
      · rw [if_neg (by omega), if_neg (by omega), if_pos (by omega), e]; simpa using hnb
      · rw [if_neg (by omega), if_neg (by omega), if_neg (by omega), if_pos (by omega), e]; simpa using hnb
      · rw [if_neg (by omega), if_neg (by omega), if_neg (by omega), if_neg (by omega), e]; simpa using hnb


/-! ### canonical items -/

mutual
/-- Items in canonical form: every map has strictly ascending encoded keys; major type 7 carries
only one-byte simple values (false, true, null, undefined, …). -/
def Item.Canonical : Item → Prop
  | .arr xs => xs.Canonical
  | .map ps => ps.Canonical ∧ ps.StrictSorted = true
  | .tag _ x => x.Canonical
  | .m7 _ _ => False
  | _ => True
def Items.Canonical : Items → Prop
  | .nil => True
  | .cons x xs => x.Canonical ∧ xs.Canonical
def Pairs.Canonical : Pairs → Prop
  | .nil => True
  | .cons k v ps => k.Canonical ∧ v.Canonical ∧ ps.Canonical
end

/-- Everything the strict decoder promises about an accepted input. -/
def StrictOK (f : Nat) (b : Bytes) (v : Item) (r : Bytes) : Prop :=
  b = encode v ++ r ∧ v.WF ∧ v.Canonical ∧ ∀ d, v.depth ≤ d → decode f d b = some (v, r)

mutual
theorem decodeStrict_sound (f : Nat) (b : Bytes) (v : Item) (r : Bytes)
    (h : decodeStrict f b = some (v, r)) : StrictOK f b v r := by
  match f with
  | 0 => simp [decodeStrict] at h
  | f+1 =>
    unfold decodeStrict at h
    cases hd : decHeadStrict b with
    | none => simp [hd] at h
    | some q =>
      obtain ⟨mt, ai, arg, r0⟩ := q
      obtain ⟨hb, hmt, h7, hdec, harg⟩ := decHeadStrict_repro b hd
      simp only [hd] at h
      by_cases hm0 : mt = 0
      · simp only [hm0, if_true] at h; simp at h
        obtain ⟨hv, hr⟩ := h; subst hv hr hm0
        refine ⟨by simpa [encode] using hb, by simpa [Item.WF] using harg, by simp [Item.Canonical], ?_⟩
        intro d _; unfold decode; simp [hdec]
      simp only [hm0, if_false] at h
      by_cases hm1 : mt = 1
      · simp only [hm1, if_true] at h; simp at h
        obtain ⟨hv, hr⟩ := h; subst hv hr hm1
        refine ⟨by simpa [encode] using hb, by simpa [Item.WF] using harg, by simp [Item.Canonical], ?_⟩
        intro d _; unfold decode; simp [hdec]
      simp only [hm1, if_false] at h
      by_cases hm2 : mt = 2
      · simp only [hm2, if_true] at h
        split at h
        · simp at h
        · rename_i hc
          simp at h; obtain ⟨hv, hr⟩ := h; subst hv hr hm2
          have hl : (r0.take arg).length = arg := by simp; omega
          refine ⟨?_, by simp [Item.WF]; omega, by simp [Item.Canonical], ?_⟩
          · rw [hb]; simp [encode, hl]
          · intro d _; unfold decode; simp only [hdec]; simp; omega
      simp only [hm2, if_false] at h
      by_cases hm3 : mt = 3
      · simp only [hm3, if_true] at h
        split at h
        · simp at h
        · rename_i hc
          simp at h; obtain ⟨hv, hr⟩ := h; subst hv hr hm3
          have hl : (r0.take arg).length = arg := by simp; omega
          refine ⟨?_, by simp [Item.WF]; omega, by simp [Item.Canonical], ?_⟩
          · rw [hb]; simp [encode, hl]
          · intro d _; unfold decode; simp only [hdec]; simp; omega
      simp only [hm3, if_false] at h
      by_cases hm4 : mt = 4
      · simp only [hm4, if_true] at h
        split at h
        · simp at h
        · rename_i hc
          cases hi : decodeStrictItems f arg r0 with
          | none => simp [hi] at h
          | some q =>
            obtain ⟨xs, r1⟩ := q
            simp only [hi] at h; simp at h
            obtain ⟨hv, hr⟩ := h; subst hv hr hm4
            obtain ⟨e1, e2, e3, e4, e5⟩ := decodeStrictItems_sound f arg r0 xs r1 hi
            refine ⟨?_, by simp [Item.WF]; exact ⟨by omega, e3⟩, by simpa [Item.Canonical] using e4, ?_⟩
            · rw [hb, e1, ← e2]; simp [encode]
            · intro d hd; simp only [Item.depth] at hd
              unfold decode; simp only [hdec]
              have := e5 (d - 1) (by omega)
              simp [this]; omega
      simp only [hm4, if_false] at h
      by_cases hm5 : mt = 5
      · simp only [hm5, if_true] at h
        split at h
        · simp at h
        · rename_i hc
          cases hi : decodeStrictPairs f arg r0 with
          | none => simp [hi] at h
          | some q =>
            obtain ⟨ps, r1⟩ := q
            simp only [hi] at h
            split at h
            · rename_i hs
              simp at h
              obtain ⟨hv, hr⟩ := h; subst hv hr hm5
              obtain ⟨e1, e2, e3, e4, e5⟩ := decodeStrictPairs_sound f arg r0 ps r1 hi
              refine ⟨?_, by simp [Item.WF]; exact ⟨by omega, e3⟩, by simp [Item.Canonical]; exact ⟨e4, hs⟩, ?_⟩
              · rw [hb, e1, ← e2]; simp [encode]
              · intro d hd; simp only [Item.depth] at hd
                unfold decode; simp only [hdec]
                have := e5 (d - 1) (by omega)
                simp [this]; omega
            · simp at h
      simp only [hm5, if_false] at h
      by_cases hm6 : mt = 6
      · simp only [hm6, if_true] at h
        cases hi : decodeStrict f r0 with
        | none => simp [hi] at h
        | some q =>
          obtain ⟨x, r1⟩ := q
          simp only [hi] at h; simp at h
          obtain ⟨hv, hr⟩ := h; subst hv hr hm6
          obtain ⟨e1, e3, e4, e5⟩ := decodeStrict_sound f r0 x r1 hi
          refine ⟨?_, by simp [Item.WF]; exact ⟨harg, e3⟩, by simpa [Item.Canonical] using e4, ?_⟩
          · rw [hb, e1]; simp [encode]
          · intro d hd; simp only [Item.depth] at hd
            unfold decode; simp only [hdec]
            have := e5 (d - 1) (by omega)
            simp [this]; omega
      simp only [hm6, if_false] at h
      have hm7 : mt = 7 := by omega
      split at h
      · rename_i hai
        simp at h; obtain ⟨hv, hr⟩ := h; subst hv hr
        refine ⟨?_, by simpa [Item.WF] using hai, by simp [Item.Canonical], ?_⟩
        · rw [hb, hm7, h7 hm7 hai]; simp [encode]
        · intro d _; unfold decode; simp only [hdec]; simp [hm7, hai]
      · simp at h
theorem decodeStrictItems_sound (f n : Nat) (b : Bytes) (xs : Items) (r : Bytes)
    (h : decodeStrictItems f n b = some (xs, r)) :
    b = encodeItems xs ++ r ∧ xs.length = n ∧ xs.WF ∧ xs.Canonical ∧
      ∀ d, xs.depth ≤ d → decodeItems f d n b = some (xs, r) := by
  match f, n with
  | f, 0 =>
    cases f <;> (simp [decodeStrictItems] at h; obtain ⟨hv, hr⟩ := h; subst hv hr
                 simp [encodeItems, Items.length, Items.WF, Items.Canonical, decodeItems])
  | 0, n+1 => simp [decodeStrictItems] at h
  | f+1, n+1 =>
    unfold decodeStrictItems at h
    cases h1 : decodeStrict f b with
    | none => simp [h1] at h
    | some q =>
      obtain ⟨x, r1⟩ := q
      simp only [h1] at h
      cases h2 : decodeStrictItems f n r1 with
      | none => simp [h2] at h
      | some q =>
        obtain ⟨ys, r2⟩ := q
        simp only [h2] at h; simp at h
        obtain ⟨hv, hr⟩ := h; subst hv hr
        obtain ⟨a1, a3, a4, a5⟩ := decodeStrict_sound f b x r1 h1
        obtain ⟨b1, b2, b3, b4, b5⟩ := decodeStrictItems_sound f n r1 ys r2 h2
        refine ⟨by rw [a1, b1]; simp [encodeItems], by simp [Items.length, b2], ⟨a3, b3⟩, ⟨a4, b4⟩, ?_⟩
        intro d hd; simp only [Items.depth] at hd
        unfold decodeItems
        rw [a5 d (by omega), ]; simp only
        rw [b5 d (by omega)]
theorem decodeStrictPairs_sound (f n : Nat) (b : Bytes) (ps : Pairs) (r : Bytes)
    (h : decodeStrictPairs f n b = some (ps, r)) :
    b = encodePairs ps ++ r ∧ ps.length = n ∧ ps.WF ∧ ps.Canonical ∧
      ∀ d, ps.depth ≤ d → decodePairs f d n b = some (ps, r) := by
  match f, n with
  | f, 0 =>
    cases f <;> (simp [decodeStrictPairs] at h; obtain ⟨hv, hr⟩ := h; subst hv hr
                 simp [encodePairs, Pairs.length, Pairs.WF, Pairs.Canonical, decodePairs])
  | 0, n+1 => simp [decodeStrictPairs] at h
  | f+1, n+1 =>
    unfold decodeStrictPairs at h
    cases h1 : decodeStrict f b with
    | none => simp [h1] at h
    | some q =>
      obtain ⟨k, r1⟩ := q
      simp only [h1] at h
      cases h2 : decodeStrict f r1 with
      | none => simp [h2] at h
      | some q =>
        obtain ⟨v, r2⟩ := q
        simp only [h2] at h
        cases h3 : decodeStrictPairs f n r2 with
        | none => simp [h3] at h
        | some q =>
          obtain ⟨ys, r3⟩ := q
          simp only [h3] at h; simp at h
          obtain ⟨hv, hr⟩ := h; subst hv hr
          obtain ⟨a1, a3, a4, a5⟩ := decodeStrict_sound f b k r1 h1
          obtain ⟨c1, c3, c4, c5⟩ := decodeStrict_sound f r1 v r2 h2
          obtain ⟨b1, b2, b3, b4, b5⟩ := decodeStrictPairs_sound f n r2 ys r3 h3
          refine ⟨by rw [a1, c1, b1]; simp [encodePairs], by simp [Pairs.length, b2], ⟨a3, c3, b3⟩, ⟨a4, c4, b4⟩, ?_⟩
          intro d hd; simp only [Pairs.depth] at hd
          unfold decodePairs
          rw [a5 d (by omega)]; simp only
          rw [c5 d (by omega)]; simp only
          rw [b5 d (by omega)]
end


/-! ### the strict decoder accepts every canonical encoding -/

theorem decHeadStrict_wide (mt ai w n lo : Nat) (r : Bytes) (hmt : mt < 8) (hai : 24 ≤ ai) (hai' : ai < 28)
    (hw : argWidth ai = w) (hn : n < 256 ^ w)
    (hlo : (if ai = 24 then 24 else if ai = 25 then 256 else if ai = 26 then 65536 else 4294967296) = lo)
    (hge : lo ≤ n) :
    decHeadStrict (UInt8.ofNat (mt * 32 + ai) :: (natBE w n ++ r)) = some (mt, ai, n, r) := by
  have hb : (UInt8.ofNat (mt * 32 + ai)).toNat = mt * 32 + ai := toNat_ofNat_lt _ (by omega)
  have h1 : (mt * 32 + ai) / 32 = mt := by omega
  have h2 : (mt * 32 + ai) % 32 = ai := by omega
  simp only [decHeadStrict, hb, h1, h2, hw, hlo]
  rw [if_neg (by omega), if_neg (by omega), if_neg (by simp)]
  rw [take_append_len _ _ _ (natBE_length w n), drop_append_len _ _ _ (natBE_length w n), beNat_natBE w n hn]
  rw [if_neg (by omega)]

theorem decHeadStrict_encHead (mt n : Nat) (r : Bytes) (hmt : mt < 8) (hn : n < 18446744073709551616) :
    ∃ ai, decHeadStrict (encHead mt n ++ r) = some (mt, ai, n, r) := by
  unfold encHead
  split
  · refine ⟨n, ?_⟩
    have hb : (UInt8.ofNat (mt * 32 + n)).toNat = mt * 32 + n := toNat_ofNat_lt _ (by omega)
    have h1 : (mt * 32 + n) / 32 = mt := by omega
    have h2 : (mt * 32 + n) % 32 = n := by omega
    simp only [List.cons_append, List.nil_append, decHeadStrict, hb, h1, h2]
    rw [if_pos (by omega)]
  · split
    · exact ⟨24, decHeadStrict_wide mt 24 1 n 24 r hmt (by omega) (by omega) rfl (by simpa using ‹n < 256›) rfl (by omega)⟩
    · split
      · exact ⟨25, decHeadStrict_wide mt 25 2 n 256 r hmt (by omega) (by omega) rfl (by simpa using ‹n < 65536›) rfl (by omega)⟩
      · split
        · exact ⟨26, decHeadStrict_wide mt 26 4 n 65536 r hmt (by omega) (by omega) rfl (by simpa using ‹n < 4294967296›) rfl (by omega)⟩
        · exact ⟨27, decHeadStrict_wide mt 27 8 n 4294967296 r hmt (by omega) (by omega) rfl (by simpa using hn) rfl (by omega)⟩

mutual
theorem decodeStrict_encode (x : Item) (hx : x.WF) (hc : x.Canonical) (r : Bytes) (f : Nat) (hf : x.size ≤ f) :
    decodeStrict f (encode x ++ r) = some (x, r) := by
  match f, x with
  | 0, x => have := Item.size_pos x; omega
  | f+1, .uint n =>
    obtain ⟨ai, h⟩ := decHeadStrict_encHead 0 n r (by omega) hx
    simp [decodeStrict, encode, h]
  | f+1, .nint n =>
    obtain ⟨ai, h⟩ := decHeadStrict_encHead 1 n r (by omega) hx
    simp [decodeStrict, encode, h]
  | f+1, .bstr b =>
    simp only [Item.WF, maxLen] at hx
    obtain ⟨ai, h⟩ := decHeadStrict_encHead 2 b.length (b ++ r) (by omega) (by omega)
    simp only [decodeStrict, encode, List.append_assoc, h, maxLen]
    simp; omega
  | f+1, .tstr b =>
    simp only [Item.WF, maxLen] at hx
    obtain ⟨ai, h⟩ := decHeadStrict_encHead 3 b.length (b ++ r) (by omega) (by omega)
    simp only [decodeStrict, encode, List.append_assoc, h, maxLen]
    simp; omega
  | f+1, .arr xs =>
    simp only [Item.WF, maxLen] at hx
    simp only [Item.Canonical] at hc
    obtain ⟨ai, h⟩ := decHeadStrict_encHead 4 xs.length (encodeItems xs ++ r) (by omega) (by omega)
    have ih := decodeStrictItems_encode xs hx.2 hc r f (by simp [Item.size] at hf; omega)
    simp only [decodeStrict, encode, List.append_assoc, h, maxLen, ih]
    simp; omega
  | f+1, .map ps =>
    simp only [Item.WF, maxLen] at hx
    simp only [Item.Canonical] at hc
    obtain ⟨ai, h⟩ := decHeadStrict_encHead 5 ps.length (encodePairs ps ++ r) (by omega) (by omega)
    have ih := decodeStrictPairs_encode ps hx.2 hc.1 r f (by simp [Item.size] at hf; omega)
    simp only [decodeStrict, encode, List.append_assoc, h, maxLen, ih, hc.2]
    simp; omega
  | f+1, .tag t x =>
    simp only [Item.WF] at hx
    simp only [Item.Canonical] at hc
    obtain ⟨ai, h⟩ := decHeadStrict_encHead 6 t (encode x ++ r) (by omega) hx.1
    have ih := decodeStrict_encode x hx.2 hc r f (by simp [Item.size] at hf; omega)
    simp only [decodeStrict, encode, List.append_assoc, h, ih]
    simp
  | f+1, .simple v =>
    simp only [Item.WF] at hx
    have hb : (UInt8.ofNat (7 * 32 + v)).toNat = 7 * 32 + v := toNat_ofNat_lt _ (by omega)
    have h1 : (7 * 32 + v) / 32 = 7 := by omega
    have h2 : (7 * 32 + v) % 32 = v := by omega
    simp only [decodeStrict, encode, List.cons_append, List.nil_append, decHeadStrict, hb, h1, h2]
    simp [hx]
  | f+1, .m7 ai arg => simp [Item.Canonical] at hc
theorem decodeStrictItems_encode (xs : Items) (hx : xs.WF) (hc : xs.Canonical) (r : Bytes) (f : Nat) (hf : xs.size ≤ f) :
    decodeStrictItems f xs.length (encodeItems xs ++ r) = some (xs, r) := by
  match f, xs with
  | f, .nil => cases f <;> simp [decodeStrictItems, encodeItems, Items.length]
  | 0, .cons x xs => simp [Items.size] at hf
  | f+1, .cons x xs =>
    simp only [Items.WF] at hx
    simp only [Items.Canonical] at hc
    simp only [Items.size] at hf
    have h1 := decodeStrict_encode x hx.1 hc.1 (encodeItems xs ++ r) f (by omega)
    have h2 := decodeStrictItems_encode xs hx.2 hc.2 r f (by omega)
    simp [decodeStrictItems, encodeItems, Items.length, h1, h2]
theorem decodeStrictPairs_encode (ps : Pairs) (hx : ps.WF) (hc : ps.Canonical) (r : Bytes) (f : Nat) (hf : ps.size ≤ f) :
    decodeStrictPairs f ps.length (encodePairs ps ++ r) = some (ps, r) := by
  match f, ps with
  | f, .nil => cases f <;> simp [decodeStrictPairs, encodePairs, Pairs.length]
  | 0, .cons k v ps => simp [Pairs.size] at hf
  | f+1, .cons k v ps =>
    simp only [Pairs.WF] at hx
    simp only [Pairs.Canonical] at hc
    simp only [Pairs.size] at hf
    have h1 := decodeStrict_encode k hx.1 hc.1 (encode v ++ (encodePairs ps ++ r)) f (by omega)
    have h2 := decodeStrict_encode v hx.2.1 hc.2.1 (encodePairs ps ++ r) f (by omega)
    have h3 := decodeStrictPairs_encode ps hx.2.2 hc.2.2 r f (by omega)
    simp [decodeStrictPairs, encodePairs, Pairs.length, h1, h2, h3]
end


/-! ### the bytewise order, insertion sort, and what the encoder does to maps -/

theorem bytesLt_irrefl (a : Bytes) : bytesLt a a = false := by
  induction a with
  | nil => rfl
  | cons x xs ih => simp [bytesLt, ih]

theorem bytesLt_asymm (a b : Bytes) (h : bytesLt a b = true) : bytesLt b a = false := by
  induction a generalizing b with
  | nil => cases b <;> simp [bytesLt] at h ⊢
  | cons x xs ih =>
    cases b with
    | nil => simp [bytesLt] at h
    | cons y ys =>
      simp only [bytesLt] at h ⊢
      by_cases h1 : x.toNat < y.toNat
      · rw [if_neg (by omega), if_pos h1]
      · rw [if_neg h1] at h
        by_cases h2 : y.toNat < x.toNat
        · rw [if_pos h2] at h; simp at h
        · rw [if_neg h2] at h; rw [if_neg h2, if_neg h1]; exact ih ys h

theorem bytesLt_trans (a b c : Bytes) (h1 : bytesLt a b = true) (h2 : bytesLt b c = true) : bytesLt a c = true := by
  induction a generalizing b c with
  | nil =>
    cases b with
    | nil => simp [bytesLt] at h1
    | cons y ys => cases c <;> simp [bytesLt] at h2 ⊢
  | cons x xs ih =>
    cases b with
    | nil => simp [bytesLt] at h1
    | cons y ys =>
      cases c with
      | nil => simp [bytesLt] at h2
      | cons z zs =>
        simp only [bytesLt] at h1 h2 ⊢
        by_cases a1 : x.toNat < y.toNat
        · by_cases a2 : y.toNat < z.toNat
          · rw [if_pos (by omega)]
          · rw [if_neg a2] at h2
            by_cases a3 : z.toNat < y.toNat
            · rw [if_pos a3] at h2; simp at h2
            · rw [if_pos (by omega)]
        · rw [if_neg a1] at h1
          by_cases a4 : y.toNat < x.toNat
          · rw [if_pos a4] at h1; simp at h1
          · rw [if_neg a4] at h1
            have exy : x.toNat = y.toNat := by omega
            by_cases a2 : y.toNat < z.toNat
            · rw [if_pos (by omega)]
            · rw [if_neg a2] at h2
              by_cases a3 : z.toNat < y.toNat
              · rw [if_pos a3] at h2; simp at h2
              · rw [if_neg a3] at h2
                rw [if_neg (by omega), if_neg (by omega)]
                exact ih ys zs h1 h2

theorem bytesLt_total (a b : Bytes) (h1 : bytesLt a b = false) (h2 : bytesLt b a = false) : a = b := by
  induction a generalizing b with
  | nil => cases b <;> simp [bytesLt] at h1 ⊢
  | cons x xs ih =>
    cases b with
    | nil => simp [bytesLt] at h2
    | cons y ys =>
      simp only [bytesLt] at h1 h2
      by_cases a1 : x.toNat < y.toNat
      · rw [if_pos a1] at h1; simp at h1
      · rw [if_neg a1] at h1
        by_cases a2 : y.toNat < x.toNat
        · rw [if_pos a2] at h2; simp at h2
        · rw [if_neg a2] at h1; rw [if_neg a2, if_neg a1] at h2
          have : x = y := UInt8.toNat_inj.mp (by omega)
          rw [this, ih ys h1 h2]

/-- the encoded key `e` occurs among the keys of `ps` -/
def Pairs.hasKey (e : Bytes) : Pairs → Prop
  | .nil => False
  | .cons k _ ps => e = encode k ∨ ps.hasKey e

/-- no two pairs have the same encoded key (a Go map never does; a struct-keyed `any` map whose
keys encode identically is outside the data model) -/
def Pairs.KeysDistinct : Pairs → Prop
  | .nil => True
  | .cons k _ ps => ¬ ps.hasKey (encode k) ∧ ps.KeysDistinct

/-- `e` is strictly below the first key -/
def Pairs.lbound (e : Bytes) : Pairs → Prop
  | .nil => True
  | .cons k _ _ => bytesLt e (encode k) = true

theorem strictSorted_cons (k v : Item) (ps : Pairs) :
    (Pairs.cons k v ps).StrictSorted = true ↔ ps.lbound (encode k) ∧ ps.StrictSorted = true := by
  cases ps with
  | nil => simp [Pairs.StrictSorted, Pairs.lbound]
  | cons k' v' ps => simp [Pairs.StrictSorted, Pairs.lbound]

theorem hasKey_insert (e : Bytes) (k v : Item) (ps : Pairs) :
    (Pairs.insert k v ps).hasKey e ↔ e = encode k ∨ ps.hasKey e := by
  match ps with
  | .nil => simp [Pairs.insert, Pairs.hasKey]
  | .cons k' v' ps =>
    have ih := hasKey_insert e k v ps
    simp only [Pairs.insert]
    split
    · simp only [Pairs.hasKey, ih]
      constructor
      · rintro (h | h | h) <;> simp [h]
      · rintro (h | h | h) <;> simp [h]
    · simp [Pairs.hasKey]

theorem hasKey_sort (e : Bytes) (ps : Pairs) : (Pairs.sort ps).hasKey e ↔ ps.hasKey e := by
  match ps with
  | .nil => simp [Pairs.sort]
  | .cons k v ps => have ih := hasKey_sort e ps; simp [Pairs.sort, hasKey_insert, Pairs.hasKey, ih]

theorem lbound_insert (a : Bytes) (k v : Item) (ps : Pairs) (h1 : ps.lbound a) (h2 : bytesLt a (encode k) = true) :
    (Pairs.insert k v ps).lbound a := by
  cases ps with
  | nil => simpa [Pairs.insert, Pairs.lbound] using h2
  | cons k' v' ps =>
    simp only [Pairs.insert]
    split
    · simpa [Pairs.lbound] using h1
    · simpa [Pairs.lbound] using h2

theorem insert_strictSorted (k v : Item) (ps : Pairs) (hs : ps.StrictSorted = true) (hk : ¬ ps.hasKey (encode k)) :
    (Pairs.insert k v ps).StrictSorted = true := by
  match ps with
  | .nil => simp [Pairs.insert, Pairs.StrictSorted]
  | .cons k' v' ps =>
    have ih := insert_strictSorted k v ps
    simp only [Pairs.hasKey, not_or] at hk
    rw [strictSorted_cons] at hs
    simp only [Pairs.insert]
    split
    · rename_i hlt
      rw [strictSorted_cons]
      exact ⟨lbound_insert _ k v ps hs.1 hlt, ih hs.2 hk.2⟩
    · rename_i hlt
      have hlt' : bytesLt (encode k') (encode k) = false := by simpa using hlt
      rw [strictSorted_cons, strictSorted_cons]
      refine ⟨?_, hs⟩
      simp only [Pairs.lbound]
      cases hb : bytesLt (encode k) (encode k') with
      | true => rfl
      | false => exact absurd (bytesLt_total _ _ hb hlt') hk.1

theorem sort_strictSorted (ps : Pairs) (hd : ps.KeysDistinct) : (Pairs.sort ps).StrictSorted = true := by
  match ps with
  | .nil => simp [Pairs.sort, Pairs.StrictSorted]
  | .cons k v ps =>
    have ih := sort_strictSorted ps
    simp only [Pairs.KeysDistinct] at hd
    simp only [Pairs.sort]
    exact insert_strictSorted k v _ (ih hd.2) (by rw [hasKey_sort]; exact hd.1)

theorem insert_length (k v : Item) (ps : Pairs) : (Pairs.insert k v ps).length = ps.length + 1 := by
  match ps with
  | .nil => simp [Pairs.insert, Pairs.length]
  | .cons k' v' ps => have ih := insert_length k v ps; simp only [Pairs.insert]; split <;> simp [Pairs.length, ih]

theorem sort_length (ps : Pairs) : (Pairs.sort ps).length = ps.length := by
  match ps with
  | .nil => rfl
  | .cons k v ps => have ih := sort_length ps; simp [Pairs.sort, insert_length, Pairs.length, ih]

theorem insert_wf (k v : Item) (ps : Pairs) (hk : k.WF) (hv : v.WF) (hp : ps.WF) : (Pairs.insert k v ps).WF := by
  match ps with
  | .nil => simp [Pairs.insert, Pairs.WF, hk, hv]
  | .cons k' v' ps =>
    have ih := insert_wf k v ps hk hv
    simp only [Pairs.WF] at hp
    simp only [Pairs.insert]; split
    · exact ⟨hp.1, hp.2.1, ih hp.2.2⟩
    · exact ⟨hk, hv, hp⟩

theorem sort_wf (ps : Pairs) (hp : ps.WF) : (Pairs.sort ps).WF := by
  match ps with
  | .nil => simp [Pairs.sort, Pairs.WF]
  | .cons k v ps => simp only [Pairs.WF] at hp; exact insert_wf k v _ hp.1 hp.2.1 (sort_wf ps hp.2.2)

theorem insert_canonical (k v : Item) (ps : Pairs) (hk : k.Canonical) (hv : v.Canonical) (hp : ps.Canonical) :
    (Pairs.insert k v ps).Canonical := by
  match ps with
  | .nil => simp [Pairs.insert, Pairs.Canonical, hk, hv]
  | .cons k' v' ps =>
    have ih := insert_canonical k v ps hk hv
    simp only [Pairs.Canonical] at hp
    simp only [Pairs.insert]; split
    · exact ⟨hp.1, hp.2.1, ih hp.2.2⟩
    · exact ⟨hk, hv, hp⟩

theorem sort_canonical (ps : Pairs) (hp : ps.Canonical) : (Pairs.sort ps).Canonical := by
  match ps with
  | .nil => simp [Pairs.sort, Pairs.Canonical]
  | .cons k v ps => simp only [Pairs.Canonical] at hp; exact insert_canonical k v _ hp.1 hp.2.1 (sort_canonical ps hp.2.2)

theorem norm_length_items (xs : Items) : xs.norm.length = xs.length := by
  match xs with
  | .nil => rfl
  | .cons x xs => have ih := norm_length_items xs; simp [Items.norm, Items.length, ih]

theorem norm_length_pairs (ps : Pairs) : ps.norm.length = ps.length := by
  match ps with
  | .nil => rfl
  | .cons k v ps => have ih := norm_length_pairs ps; simp [Pairs.norm, Pairs.length, ih]

mutual
/-- What can be handed to the encoder: no two keys of a map encode identically (after their own maps
were put in order), and major type 7 carries one-byte simple values only. -/
def Item.Marshalable : Item → Prop
  | .arr xs => xs.Marshalable
  | .map ps => ps.Marshalable ∧ ps.norm.KeysDistinct
  | .tag _ x => x.Marshalable
  | .m7 _ _ => False
  | _ => True
def Items.Marshalable : Items → Prop
  | .nil => True
  | .cons x xs => x.Marshalable ∧ xs.Marshalable
def Pairs.Marshalable : Pairs → Prop
  | .nil => True
  | .cons k v ps => k.Marshalable ∧ v.Marshalable ∧ ps.Marshalable
end

mutual
theorem norm_wf (x : Item) (hx : x.WF) : x.norm.WF := by
  match x with
  | .uint _ | .nint _ | .bstr _ | .tstr _ | .simple _ | .m7 _ _ => simpa [Item.norm] using hx
  | .arr xs =>
    simp only [Item.WF] at hx
    simp only [Item.norm, Item.WF, norm_length_items]; exact ⟨hx.1, norm_wf_items xs hx.2⟩
  | .map ps =>
    simp only [Item.WF] at hx
    simp only [Item.norm, Item.WF, sort_length, norm_length_pairs]
    exact ⟨hx.1, sort_wf _ (norm_wf_pairs ps hx.2)⟩
  | .tag t y =>
    simp only [Item.WF] at hx
    simp only [Item.norm, Item.WF]; exact ⟨hx.1, norm_wf y hx.2⟩
theorem norm_wf_items (xs : Items) (hx : xs.WF) : xs.norm.WF := by
  match xs with
  | .nil => simp [Items.norm, Items.WF]
  | .cons x xs => simp only [Items.WF] at hx; exact ⟨norm_wf x hx.1, norm_wf_items xs hx.2⟩
theorem norm_wf_pairs (ps : Pairs) (hx : ps.WF) : ps.norm.WF := by
  match ps with
  | .nil => simp [Pairs.norm, Pairs.WF]
  | .cons k v ps => simp only [Pairs.WF] at hx; exact ⟨norm_wf k hx.1, norm_wf v hx.2.1, norm_wf_pairs ps hx.2.2⟩
end

mutual
theorem norm_canonical (x : Item) (hm : x.Marshalable) : x.norm.Canonical := by
  match x with
  | .uint _ | .nint _ | .bstr _ | .tstr _ | .simple _ => simp [Item.norm, Item.Canonical]
  | .m7 _ _ => simp [Item.Marshalable] at hm
  | .arr xs => simp only [Item.Marshalable] at hm; simpa [Item.norm, Item.Canonical] using norm_canonical_items xs hm
  | .map ps =>
    simp only [Item.Marshalable] at hm
    simp only [Item.norm, Item.Canonical]
    exact ⟨sort_canonical _ (norm_canonical_pairs ps hm.1), sort_strictSorted _ hm.2⟩
  | .tag t y => simp only [Item.Marshalable] at hm; simpa [Item.norm, Item.Canonical] using norm_canonical y hm
theorem norm_canonical_items (xs : Items) (hm : xs.Marshalable) : xs.norm.Canonical := by
  match xs with
  | .nil => simp [Items.norm, Items.Canonical]
  | .cons x xs => simp only [Items.Marshalable] at hm; exact ⟨norm_canonical x hm.1, norm_canonical_items xs hm.2⟩
theorem norm_canonical_pairs (ps : Pairs) (hm : ps.Marshalable) : ps.norm.Canonical := by
  match ps with
  | .nil => simp [Pairs.norm, Pairs.Canonical]
  | .cons k v ps =>
    simp only [Pairs.Marshalable] at hm
    exact ⟨norm_canonical k hm.1, norm_canonical v hm.2.1, norm_canonical_pairs ps hm.2.2⟩
end


/-! ### the order in which a map's pairs are handed to the encoder does not matter -/

theorem bytesLt_of_not_gt_of_lt (a b c : Bytes) (h1 : bytesLt b a = false) (h2 : bytesLt b c = true) :
    bytesLt a c = true := by
  cases hab : bytesLt a b with
  | true => exact bytesLt_trans a b c hab h2
  | false => have := bytesLt_total a b hab h1; subst this; exact h2

theorem insert_comm (k1 v1 k2 v2 : Item) (hne : encode k1 ≠ encode k2) (ps : Pairs) :
    Pairs.insert k1 v1 (Pairs.insert k2 v2 ps) = Pairs.insert k2 v2 (Pairs.insert k1 v1 ps) := by
  have tot : ∀ a b : Item, encode a ≠ encode b → bytesLt (encode a) (encode b) = false →
      bytesLt (encode b) (encode a) = true := by
    intro a b hn h
    cases hb : bytesLt (encode b) (encode a) with
    | true => rfl
    | false => exact absurd (bytesLt_total _ _ h hb) hn
  match ps with
  | .nil =>
    simp only [Pairs.insert]
    cases h21 : bytesLt (encode k2) (encode k1) with
    | true =>
      have h12 := bytesLt_asymm _ _ h21
      simp [Pairs.insert, h12]
    | false =>
      have h12 := tot k2 k1 (Ne.symm hne) h21
      simp [Pairs.insert, h12]
  | .cons k' v' ps =>
    have ih := insert_comm k1 v1 k2 v2 hne ps
    cases a1 : bytesLt (encode k') (encode k1) with
    | true =>
      cases a2 : bytesLt (encode k') (encode k2) with
      | true => simp [Pairs.insert, a1, a2, ih]
      | false =>
        have h21 : bytesLt (encode k2) (encode k1) = true := bytesLt_of_not_gt_of_lt _ _ _ a2 a1
        have h12 := bytesLt_asymm _ _ h21
        simp [Pairs.insert, a1, a2, h21, h12]
    | false =>
      cases a2 : bytesLt (encode k') (encode k2) with
      | true =>
        have h12 : bytesLt (encode k1) (encode k2) = true := bytesLt_of_not_gt_of_lt _ _ _ a1 a2
        have h21 := bytesLt_asymm _ _ h12
        simp [Pairs.insert, a1, a2, h21, h12]
      | false =>
        cases h21 : bytesLt (encode k2) (encode k1) with
        | true =>
          have h12 := bytesLt_asymm _ _ h21
          simp [Pairs.insert, a1, a2, h21, h12]
        | false =>
          have h12 := tot k2 k1 (Ne.symm hne) h21
          simp [Pairs.insert, a1, a2, h21, h12]

/-- the keys of a pair list encode pairwise differently -/
def DistinctKeysL (l : List (Item × Item)) : Prop := l.Pairwise (fun a b => encode a.1 ≠ encode b.1)

theorem sort_ofList_cons (x : Item × Item) (l : List (Item × Item)) :
    Pairs.sort (Pairs.ofList (x :: l)) = Pairs.insert x.1 x.2 (Pairs.sort (Pairs.ofList l)) := by
  obtain ⟨k, v⟩ := x; rfl

theorem sort_perm (l1 l2 : List (Item × Item)) (h : l1.Perm l2) (hd : DistinctKeysL l1) :
    Pairs.sort (Pairs.ofList l1) = Pairs.sort (Pairs.ofList l2) := by
  induction h with
  | nil => rfl
  | cons x _ ih =>
    rw [sort_ofList_cons, sort_ofList_cons, ih (List.Pairwise.of_cons hd)]
  | swap x y l =>
    rw [sort_ofList_cons, sort_ofList_cons, sort_ofList_cons, sort_ofList_cons]
    have : encode y.1 ≠ encode x.1 := by
      have := (List.pairwise_cons.mp hd).1 x (by simp)
      exact this
    exact insert_comm y.1 y.2 x.1 x.2 this _
  | trans p1 _ ih1 ih2 =>
    rw [ih1 hd]
    exact ih2 ((List.Perm.pairwise_iff (fun h => Ne.symm h) p1).mp hd)

theorem ofList_toList (ps : Pairs) : Pairs.ofList ps.toList = ps := by
  match ps with
  | .nil => rfl
  | .cons k v ps => simp [Pairs.toList, Pairs.ofList, ofList_toList ps]

theorem norm_toList (ps : Pairs) : ps.norm.toList = ps.toList.map (fun p => (p.1.norm, p.2.norm)) := by
  match ps with
  | .nil => rfl
  | .cons k v ps => simp [Pairs.norm, Pairs.toList, norm_toList ps]

end Fdo.Cbor
