import Fdo.Cbor.Typed
import Fdo.Cbor.WellFormed
/-
Which decode targets enforce the documented length limit on the head they are given.
-/
namespace Fdo.Cbor
open Fdo

/-- targets that look at the length their head declares through `decodeLen` / the explicit checks of
`decodeByteSlice`, `decodeArrayToSlice`, `decodeArrayToStruct`, `decodeMap` (or that refuse strings, arrays
and maps altogether). The four targets that read their head through `Decoder.unwrap` — `Bstr[T]`,
`ByteWrap[T]`, `ByteWrap[[]byte]` and the X.509 wrappers — do not compare it with the limit. -/
def Schema.limitChecked : Schema → Bool
  | .ptr e => e.limitChecked
  | .bstr _ | .wrap _ | .wrapBytes | .cert => false
  | _ => true

theorem decode_over_limit (f d : Nat) (b : Bytes) (mt ai arg : Nat) (r : Bytes)
    (hd : decHead b = some (mt, ai, arg, r)) (hmt : 2 ≤ mt ∧ mt ≤ 5) (harg : arg ≥ maxLen) : decode f d b = none := by
  cases f with
  | zero => simp [decode]
  | succ f =>
    simp only [decode, hd]
    have h0 : mt ≠ 0 := by omega
    have h1 : mt ≠ 1 := by omega
    simp only [h0, h1, if_false]
    by_cases m2 : mt = 2
    · simp [m2]; omega
    by_cases m3 : mt = 3
    · simp [m3]; omega
    by_cases m4 : mt = 4
    · simp [m4]; omega
    have m5 : mt = 5 := by omega
    simp [m5]; omega

theorem isNullHead_of_head {b r : Bytes} {mt ai arg : Nat} (hd : decHead b = some (mt, ai, arg, r)) (hmt : mt ≠ 7) :
    isNullHead b = none := by
  simp [isNullHead, hd, hmt]

theorem decodeAny_over_limit (f d : Nat) (b : Bytes) (mt ai arg : Nat) (r : Bytes)
    (hd : decHead b = some (mt, ai, arg, r)) (hmt : 2 ≤ mt ∧ mt ≤ 5) (harg : arg ≥ maxLen) : decodeAny f d b = none := by
  cases f with
  | zero => simp [decodeAny]
  | succ f =>
    simp only [decodeAny, hd]
    have h0 : mt ≠ 0 := by omega
    have h1 : mt ≠ 1 := by omega
    simp only [h0, h1, if_false]
    by_cases m2 : mt = 2
    · simp [m2]; omega
    by_cases m3 : mt = 3
    · simp [m3]; omega
    by_cases m4 : mt = 4
    · simp [m4]; omega
    have m5 : mt = 5 := by omega
    simp [m5, maxLen] at harg ⊢; omega

/-- **A head declaring the limit or more is refused by every target that checks the limit**, whatever
follows it and however much of it is really there. -/
theorem decodeS_over_limit (ok : CertOracle) : ∀ (f d : Nat) (s : Schema) (b : Bytes) (mt ai arg : Nat) (r : Bytes),
    decHead b = some (mt, ai, arg, r) → 2 ≤ mt ∧ mt ≤ 5 → arg ≥ maxLen → s.limitChecked = true →
    decodeS ok f d s b = none
  | 0, _, _, _, _, _, _, _, _, _, _, _ => by simp [decodeS]
  | f+1, d, s, b, mt, ai, arg, r, hd, hmt, harg, hs => by
    have hraw := decode_over_limit f d b mt ai arg r hd hmt harg
    have hany := decodeAny_over_limit f d b mt ai arg r hd hmt harg
    have h0 : mt ≠ 0 := by omega
    have h1 : mt ≠ 1 := by omega
    have h6 : mt ≠ 6 := by omega
    have h7 : mt ≠ 7 := by omega
    cases s with
    | ptr e =>
      simp only [Schema.limitChecked] at hs
      simp only [decodeS, isNullHead_of_head hd h7]
      rw [decodeS_over_limit ok f d e b mt ai arg r hd hmt harg hs]
    | bstr e => simp [Schema.limitChecked] at hs
    | wrap e => simp [Schema.limitChecked] at hs
    | wrapBytes => simp [Schema.limitChecked] at hs
    | cert => simp [Schema.limitChecked] at hs
    | uint max => simp [decodeS, hd, h0, h7]
    | int bits => simp [decodeS, hd, h0, h1, h7]
    | bool => simp [decodeS, hd, h7]
    | bytes =>
      simp only [decodeS, hd]
      by_cases m : mt = 2 ∨ mt = 3
      · simp [m]; omega
      · have m4 : mt = 4 ∨ mt = 5 := by omega
        rcases m4 with m4 | m5
        · simp [m4]; omega
        · simp [m5]
    | text =>
      simp only [decodeS, hd]
      by_cases m : mt = 2 ∨ mt = 3
      · simp [m]; omega
      · simp [m]
    | fixed n =>
      simp only [decodeS, hd]
      by_cases m : mt = 2 ∨ mt = 3
      · simp [m]; omega
      · have m4 : mt = 4 ∨ mt = 5 := by omega
        rcases m4 with m4 | m5
        · simp [m4]; omega
        · simp [m5]
    | slice e =>
      simp only [decodeS, hd]
      by_cases m4 : mt = 4
      · simp [m4]; omega
      · simp [m4, h7]
    | struct fs =>
      simp only [decodeS, hd]
      by_cases m4 : mt = 4
      · simp [m4]; omega
      · simp [m4, h7]
    | any => simp [decodeS, hany]
    | mapOf ks vs =>
      simp only [decodeS, hd]
      by_cases m5 : mt = 5
      · simp [m5, maxLen] at harg ⊢; omega
      · simp [m5]
    | tagAny e => simp [decodeS, hd, h6]
    | tagNum n e => simp [decodeS, hraw]
    | raw => simp [decodeS, hraw]
    | viaRaw e => simp [decodeS, hraw]
    | label => simp [decodeS, hraw]
    | timestamp => simp [decodeS, hd, h6, h7]
    | chunk => simp [decodeS, hraw]
    | coseKey => simp [decodeS, hraw]

end Fdo.Cbor
