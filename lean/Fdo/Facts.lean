import Fdo.Gen.Facts
/-
Reading the regenerated call-order facts: which calls a deciding function makes and in which order.
The property files state their expectations against these (a `decide` over the regenerated lists), so
a check that is dropped from the source, or moved behind the effect it gates, breaks a named theorem.
-/
namespace Fdo.Facts

/-- calls of function `f` in source order ([] if the function is gone) -/
def callsOf (f : String) : List String :=
  match Fdo.Gen.Facts.calls.find? (fun r => r.1 == f) with
  | some r => r.2
  | none => []

/-- `a` is called, `b` is called, and the first call of `a` precedes the first call of `b` -/
def before (f a b : String) : Bool :=
  let l := callsOf f
  l.contains a && l.contains b && decide (l.findIdx (· == a) < l.findIdx (· == b))

/-- `a` is called at least `n` times -/
def atLeast (f a : String) (n : Nat) : Bool := decide (n ≤ (callsOf f).count a)

/-- every one of `as` is called before `b` -/
def allBefore (f : String) (as : List String) (b : String) : Bool := as.all (fun a => before f a b)

/-- calls made from inside `go` statements of `f` -/
def goCallsOf (f : String) : List String :=
  match Fdo.Gen.Facts.goCalls.find? (fun r => r.1 == f) with
  | some r => r.2
  | none => []

/-- how often `a` is called outside any `go` statement of `f` -/
def syncCount (f a : String) : Nat := (callsOf f).count a - (goCallsOf f).count a

end Fdo.Facts
