import Fdo.Drv.Cbor
import Fdo.Drv.Typed
import Fdo.Drv.Cose
import Fdo.Drv.Prim
import Fdo.Drv.Kex
import Fdo.Drv.Voucher
import Fdo.Drv.TO0
import Fdo.Drv.TO1
import Fdo.Drv.TO2Dev
import Fdo.Drv.Tunnel
import Fdo.Drv.Handover
import Fdo.Drv.Chunk
import Fdo.Drv.Rv
import Fdo.Drv.Server
import Fdo.Drv.Fsim
import Fdo.Drv.Store
import Fdo.Drv.Endpoint
import Fdo.Drv.Rounds
import Fdo.Drv.Pipeline
/-
Line-protocol driver: one operation per input line, one reply per output line.
Imports model modules only (no proofs, no Mathlib) so that it links as a `lean_exe`.
-/
open Fdo

/-- command prefix ↦ handler; one line per area so that additions merge cleanly -/
def handlers : List (String × (String → List String → Option String)) := [
  ("cbor.typed", Drv.Typed.handle),
  ("cbor.", Drv.Cbor.handle),
  ("cose.", Drv.Cose.handle),
  ("prim.", Drv.Prim.handle),
  ("kex.", Drv.Kex.handle),
  ("voucher.", Drv.Voucher.handle),
  ("to0.", Drv.TO0.handle),
  ("to1.", Drv.TO1.handle),
  ("to2dev.", Drv.TO2Dev.handle),
  ("tunnel.", Drv.Tunnel.handle),
  ("handover.", Drv.Handover.handle),
  ("chunk.", Drv.Chunk.handle),
  ("rv.", Drv.Rv.handle),
  ("server.", Drv.Server.handle),
  ("fsim.", Drv.Fsim.handle),
  ("store.", Drv.Store.handle),
  ("c10.", Drv.Endpoint.handle),
  ("rounds.", Drv.Rounds.handle),
  ("pipe.", Drv.Pipeline.handle),
]

def dispatch (line : String) : String :=
  match (line.splitOn " ").filter (· ≠ "") with
  | [] => "bad-op"
  | ["flush"] => "flushed"
  | cmd :: args =>
    match handlers.find? (fun h => cmd.startsWith h.1) with
    | some (_, f) => (f cmd args).getD "bad-op"
    | none => "bad-op"

partial def loop (hin : IO.FS.Stream) (hout : IO.FS.Stream) : IO Unit := do
  let line ← hin.getLine
  if line.isEmpty then return ()
  let line := line.trimAscii.toString
  hout.putStrLn (dispatch line)
  if line == "flush" || line.startsWith "!" then hout.flush
  loop hin hout

def main : IO Unit := do
  let hin ← IO.getStdin
  let hout ← IO.getStdout
  loop hin hout
  hout.flush
