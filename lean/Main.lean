import Fdo.Drv.Cbor
import Fdo.Drv.Rv
/-
Line-protocol driver: one operation per input line, one reply per output line.
Imports model modules only (no proofs, no Mathlib) so that it links as a `lean_exe`.
-/
open Fdo

def dispatch (line : String) : String :=
  match (line.splitOn " ").filter (· ≠ "") with
  | [] => "bad-op"
  | ["flush"] => "flushed"
  | cmd :: args =>
    let r :=
      if cmd.startsWith "cbor." then Drv.Cbor.handle cmd args
      else if cmd.startsWith "rv." then Drv.Rv.handle cmd args
      else none
    r.getD "bad-op"

partial def loop (hin : IO.FS.Stream) (hout : IO.FS.Stream) : IO Unit := do
  let line ← hin.getLine
  if line.isEmpty then return ()
  let line := line.trimAscii.toString
  hout.putStrLn (dispatch line)
  if line == "flush" || line.startsWith "!" then hout.flush
  loop hin hout

def main : IO Unit := do
  let hin ← IO.getStdin
  let hout ← IO.getStdout
  loop hin hout
  hout.flush
